package main

// C18 - copies of the intermediate representation are faithful and independent.
//
//   c18-roots   the node types with a DeepCopy method, found by reflection (becomes the constant
//               Roots of spec/HeapShapes.tla)
//   c18-run     for every TLC shape: instantiate (c18fill.go), call the REAL DeepCopy method,
//               extract both heap graphs (c18graph.go), judge Iso and Disjoint, then execute the
//               mutation plans derived from spec/HeapMC.tla on the copy and compare a deep snapshot
//               of the original; every judged case can be written as a record for HeapTrace.tla
//   c18-real    real transformations instead of synthetic mutations (c18real.go)
//
// Signatures: C18/<Type>.DeepCopy/<Lost|Differs|Shared|Mutation-visible>/<field>[(any-payload)]
// where <Type> is the innermost node type whose own DeepCopy reproduces the defect and <field> the
// field of that type under which it sits.

import (
	"bufio"
	"encoding/json"
	"flag"
	"fmt"
	"hash/fnv"
	"os"
	"reflect"
	"runtime/pprof"
	"sort"
	"strings"
	"sync"
)

func init() {
	commands["c18-roots"] = c18RootsCmd
	commands["c18-run"] = c18Run
}

func c18RootsCmd(_ []string) int {
	roots := c18Roots()
	names := make([]string, 0, len(roots))
	withTypes := []string{}
	for n, t := range roots {
		names = append(names, n)
		_, f := c18New(t, c18Shape{Root: n, Chain: []string{"scalar"}, Fill: "wellformed", Payload: "scalar"})
		if f.err != nil {
			fmt.Fprintf(os.Stderr, "cannot instantiate %s: %v\n", n, f.err)
			return 2
		}
		if f.typesMet > 0 {
			withTypes = append(withTypes, n)
		}
	}
	sort.Strings(names)
	sort.Strings(withTypes)
	raw, _ := json.Marshal(J{"roots": names, "with_types": withTypes})
	fmt.Println(string(raw))
	return 0
}

// ------------------------------------------------------------------ analysis of one (original, copy) pair

type c18Analysis struct {
	w      *walker
	o, k   gval
	diffs  []isoDiff
	shared []sharedRec
}

func c18Analyse(orig, cp reflect.Value) (*c18Analysis, error) {
	w := newWalker()
	a := &c18Analysis{w: w}
	a.o = w.root(orig, "o")
	w.owner = 1
	a.k = w.root(cp, "k")
	if w.err != nil {
		return nil, w.err
	}
	w.iso(a.o, a.k, nil, &a.diffs)
	a.shared = w.shared
	for _, ov := range w.overlaps() {
		a.shared = append(a.shared, sharedRec{cell: ov, kind: "arr-overlap"})
	}
	return a, nil
}

func prefixOf(p, q []pstep) bool {
	if len(p) > len(q) {
		return false
	}
	for i := range p {
		if p[i].kind != q[i].kind || p[i].label != q[i].label {
			return false
		}
	}
	return true
}

// reproduces: does the DeepCopy of sub alone show a defect of this class at (or above) rel?
func c18Reproduces(sub reflect.Value, rel []pstep, class string) bool {
	cp, err := c18DeepCopy(sub)
	if err != nil {
		return false
	}
	a, err := c18Analyse(sub, cp)
	if err != nil {
		return false
	}
	if class == "Shared" {
		for _, s := range a.shared {
			if s.origPath != nil && prefixOf(s.origPath, rel) {
				return true
			}
		}
		return false
	}
	for _, d := range a.diffs {
		if d.class == class && prefixOf(d.path, rel) {
			return true
		}
	}
	return false
}

type c18Attr struct {
	typ   string
	field string
}

// c18Attribute finds the innermost node type on the path whose own DeepCopy reproduces the defect.
func c18Attribute(root reflect.Value, rootName string, path []pstep, class string) c18Attr {
	a, _ := c18AttributeR(root, rootName, path, class, false)
	return a
}

// c18AttributeR: with testRoot the root's own DeepCopy is tested too; ok=false means no DeepCopy
// method on the path reproduces the defect (it was introduced by whoever produced the copy)
func c18AttributeR(root reflect.Value, rootName string, path []pstep, class string, testRoot bool) (c18Attr, bool) {
	type cand struct {
		v   reflect.Value
		idx int
	}
	var cands []cand
	cur := root
	unwrap := func() bool {
		for cur.Kind() == reflect.Interface || cur.Kind() == reflect.Ptr {
			if cur.IsNil() {
				return false
			}
			cur = cur.Elem()
		}
		return true
	}
	ok := true
	for i, st := range path {
		if !unwrap() {
			ok = false
			break
		}
		if c18HasDeepCopy(cur.Type()) {
			cands = append(cands, cand{cur, i})
		}
		switch st.kind {
		case "field":
			if cur.Kind() != reflect.Struct {
				ok = false
				break
			}
			sf, found := cur.Type().FieldByName(st.label)
			if !found {
				ok = false
				break
			}
			cur = cleanField(cur, sf.Index[0])
		case "index":
			var n int
			fmt.Sscanf(st.label, "%d", &n)
			if cur.Kind() != reflect.Slice || n < 1 || n > cur.Len() {
				ok = false
				break
			}
			cur = cur.Index(n - 1)
		default:
			if cur.Kind() != reflect.Map {
				ok = false
				break
			}
			found := false
			for _, k := range cur.MapKeys() {
				if keyString(k) == st.label {
					cur = cur.MapIndex(k)
					found = true
					break
				}
			}
			ok = found
		}
		if !ok {
			break
		}
	}
	describe := func(typ string, rel []pstep) c18Attr {
		field := "(root)"
		if len(rel) > 0 {
			switch rel[0].kind {
			case "field":
				field = rel[0].label
			case "index":
				field = "[]"
			default:
				field = "{}"
			}
		}
		if class == "Shared" {
			for _, s := range rel {
				if s.any {
					field += "(any-payload)"
					break
				}
			}
		}
		return c18Attr{typ, field}
	}
	last := 1
	if testRoot {
		last = 0
	}
	for j := len(cands) - 1; j >= last; j-- {
		c := cands[j]
		if !c.v.CanInterface() {
			continue
		}
		rel := path[c.idx:]
		if c18Reproduces(addressable(c.v), rel, class) {
			return describe(c.v.Type().Name(), rel), true
		}
	}
	return describe(rootName, path), !testRoot
}

// ------------------------------------------------------------------ one shape

type c18Finding struct {
	Sig string
	Ex  J
}

type c18Stats struct {
	Cases        int            `json:"cases"`  // (shape, plan) executions
	Shapes       int            `json:"shapes"` // shapes instantiated
	SkippedDup   int            `json:"skipped_duplicate_shapes"`
	Cells        int            `json:"cells"` // cells extracted over all shapes
	MaxCells     int            `json:"max_cells"`
	Sites        map[string]int `json:"sites_per_op"` // writes performed on copies, per mutation kind
	CasesWithOp  map[string]int `json:"cases_per_op"` // executions in which the op had at least one site
	PerRoot      map[string]int `json:"shapes_per_root"`
	IsoOK        int            `json:"shapes_iso_ok"`
	DisjointOK   int            `json:"shapes_disjoint_ok"`
	Visible      int            `json:"cases_with_visible_mutation"`
	Nontrivial   int            `json:"nontrivial_cases"` // executions whose plan performed at least one write on the copy
	FieldsFilled map[string]int `json:"observable_leaves_per_root"`
}

type c18Opts struct {
	plans     [][]string
	pairs     int
	seed      int
	traceMax  int
	traceCell int
}

type c18Out struct {
	findings []c18Finding
	records  []J
	harness  string
}

// longestPrefix finds the longest prefix of a flattened path (cut at step boundaries) accepted by has
func longestPrefix(path string, has func(string) bool) (string, bool) {
	for i := len(path); i > 0; i-- {
		if i == len(path) || path[i] == '.' || path[i] == '[' || path[i] == '{' || path[i] == '#' {
			if has(path[:i]) {
				return path[:i], true
			}
		}
	}
	return "", false
}

func planKey(p []string) string { return strings.Join(p, "+") }

func c18PlansFor(idx int, o c18Opts) [][]string {
	var singles, pairs [][]string
	for _, p := range o.plans {
		if len(p) == 1 {
			singles = append(singles, p)
		} else {
			pairs = append(pairs, p)
		}
	}
	out := append([][]string{}, singles...)
	if o.pairs < 0 || o.pairs >= len(pairs) {
		return append(out, pairs...)
	}
	for j := 0; j < o.pairs && len(pairs) > 0; j++ {
		out = append(out, pairs[(idx*o.pairs+j+o.seed)%len(pairs)])
	}
	return out
}

func c18RunShape(idx int, s c18Shape, t reflect.Type, o c18Opts, st *c18Stats, mu *sync.Mutex, traceQuota *int) c18Out {
	var out c18Out
	add := func(sig string, ex J) { out.findings = append(out.findings, c18Finding{sig, ex}) }
	shapeJ := J{"root": s.Root, "chain": s.Chain, "fill": s.Fill, "payload": s.Payload}

	sharedAttr := map[string]c18Attr{} // cell id of the first instance -> attribution (paths are the same in every instance)
	memo := map[string]c18Attr{}
	attribute := func(root reflect.Value, path []pstep, class string) c18Attr {
		key := class + "|" + pathNorm(path)
		for _, p := range path {
			if p.any {
				key += "|any"
				break
			}
		}
		if a, ok := memo[key]; ok {
			return a
		}
		a := c18Attribute(root, s.Root, path, class)
		memo[key] = a
		return a
	}

	plans := c18PlansFor(idx, o)
	small := false // heap small enough for HeapTrace.tla (decided on the first instance)
	for pi, plan := range plans {
		orig, f := c18New(t, s)
		if f.err != nil {
			out.harness = fmt.Sprintf("filler: %s: %v", s.key(), f.err)
			return out
		}
		before := map[string]string{}
		flatten(orig, "", before)
		cp, err := c18DeepCopy(orig)
		if err != nil {
			add(fmt.Sprintf("C18/%s.DeepCopy/panic/%s", s.Root, s.Fill), J{"shape": shapeJ, "problem": err.Error()})
			return out
		}
		var an *c18Analysis
		wantTrace := false
		if pi == 0 || small {
			an, err = c18Analyse(orig, cp)
			if err != nil {
				out.harness = fmt.Sprintf("extract: %s: %v", s.key(), err)
				return out
			}
			small = o.traceMax > 0 && len(an.w.cells) <= o.traceCell
			wantTrace = small
		}
		if pi == 0 {
			afterCopy := map[string]string{}
			flatten(orig, "", afterCopy)
			if d := flatDiff(before, afterCopy); len(d) > 0 {
				add(fmt.Sprintf("C18/%s.DeepCopy/Mutates-receiver/%s", s.Root, strings.Trim(strings.SplitN(d[0], ".", 3)[1], "[]{}#")),
					J{"shape": shapeJ, "changed": d[:min(len(d), 5)]})
			}
			mu.Lock()
			st.Shapes++
			st.PerRoot[s.Root]++
			st.Cells += len(an.w.cells)
			if len(an.w.cells) > st.MaxCells {
				st.MaxCells = len(an.w.cells)
			}
			if len(an.diffs) == 0 {
				st.IsoOK++
			}
			if len(an.shared) == 0 {
				st.DisjointOK++
			}
			if len(before) > st.FieldsFilled[s.Root] {
				st.FieldsFilled[s.Root] = len(before)
			}
			mu.Unlock()
			for _, d := range an.diffs {
				at := attribute(orig, d.path, d.class)
				add(fmt.Sprintf("C18/%s.DeepCopy/%s/%s", at.typ, d.class, at.field),
					J{"shape": shapeJ, "path": pathString(d.path), "original": d.a, "copy": d.b})
			}
			for _, sh := range an.shared {
				if sh.origPath == nil {
					add(fmt.Sprintf("C18/%s.DeepCopy/Shared/overlapping-arrays", s.Root), J{"shape": shapeJ, "cells": sh.cell})
					continue
				}
				at := attribute(orig, sh.origPath, "Shared")
				sharedAttr[pathString(sh.origPath)] = at
				add(fmt.Sprintf("C18/%s.DeepCopy/Shared/%s", at.typ, at.field),
					J{"shape": shapeJ, "path": pathString(sh.origPath), "copy_path": pathString(sh.copyPath), "cell_kind": sh.kind})
			}
		}
		// ---- the mutation plan, on the copy
		mw := newWalker()
		if an != nil {
			mw = an.w
		}
		muts := []mutRec{}
		opsWithSites := map[string]bool{}
		for _, op := range plan {
			mw.mut, mw.seen, mw.muts = op, map[string]bool{}, nil
			mw.root(cp, "k")
			if mw.err != nil {
				out.harness = fmt.Sprintf("mutate: %s: %v", s.key(), mw.err)
				return out
			}
			muts = append(muts, mw.muts...)
			if len(mw.muts) > 0 {
				opsWithSites[op] = true
			}
			mu.Lock()
			for _, m := range mw.muts {
				st.Sites[m.Op]++
			}
			mu.Unlock()
		}
		mw.mut = ""
		after := map[string]string{}
		flatten(orig, "", after)
		changed := flatDiff(before, after)
		mu.Lock()
		st.Cases++
		for op := range opsWithSites {
			st.CasesWithOp[op]++
		}
		if len(changed) > 0 {
			st.Visible++
		}
		if len(muts) > 0 {
			st.Nontrivial++
		}
		mu.Unlock()
		seenSig := map[string]bool{}
		for _, cpath := range changed {
			at, ok := c18Attr{}, false
			best := -1
			_ = best
			if ps, found := longestPrefix(cpath, func(p string) bool { _, in := sharedAttr[p]; return in }); found {
				at, ok, best = sharedAttr[ps], true, len(ps)
			}
			sig := ""
			if ok {
				sig = fmt.Sprintf("C18/%s.DeepCopy/Mutation-visible/%s", at.typ, at.field)
			} else {
				first := strings.Trim(strings.SplitN(cpath+".", ".", 3)[1], "[]{}#")
				sig = fmt.Sprintf("C18/%s.DeepCopy/Mutation-visible/unattributed:%s", s.Root, first)
			}
			if seenSig[sig] {
				continue
			}
			seenSig[sig] = true
			add(sig, J{"shape": shapeJ, "plan": plan, "changed_in_original": cpath, "was": before[cpath], "now": after[cpath]})
		}
		// ---- record for HeapTrace.tla
		if wantTrace {
			mu.Lock()
			take := *traceQuota > 0
			if take {
				*traceQuota--
			}
			mu.Unlock()
			if take {
				out.records = append(out.records, J{
					"shape": shapeJ, "plan": plan, "cells": an.w.cells, "o": an.o, "k": an.k, "muts": muts,
					"changed": len(changed) > 0, "go_iso": len(an.diffs) == 0, "go_disjoint": len(an.shared) == 0,
					"ncells": len(an.w.cells),
				})
			}
		}
	}
	return out
}

func c18ReadShapes(path string) ([]c18Shape, error) {
	f, err := os.Open(path)
	if err != nil {
		return nil, err
	}
	defer f.Close()
	var shapes []c18Shape
	sc := bufio.NewScanner(f)
	sc.Buffer(make([]byte, 1<<20), 1<<26)
	for sc.Scan() {
		line := strings.TrimSpace(sc.Text())
		if line == "" {
			continue
		}
		var s c18Shape
		if err := json.Unmarshal([]byte(line), &s); err != nil {
			return nil, err
		}
		shapes = append(shapes, s)
	}
	return shapes, sc.Err()
}

func c18Run(args []string) int {
	fs := flag.NewFlagSet("c18-run", flag.ExitOnError)
	shapesIn := fs.String("shapes", "", "ndjson file of shapes (HeapShapes.tla)")
	plansIn := fs.String("plans", "", "json file: list of mutation plans (lists of op names, HeapMC.tla)")
	pairs := fs.Int("pairs", -1, "number of two-step plans per shape (rotating); -1 = all")
	seed := fs.Int("seed", 1, "rotation offset")
	traceOut := fs.String("trace", "", "write records for HeapTrace.tla")
	traceMax := fs.Int("trace-max", 0, "maximum number of trace records")
	traceCells := fs.Int("trace-cells", 150, "only heaps with at most this many cells are traced")
	par := fs.Int("par", 16, "parallel workers")
	prof := fs.String("cpuprofile", "", "write a CPU profile (diagnostics)")
	_ = fs.Parse(args)
	if *prof != "" {
		pf, _ := os.Create(*prof)
		_ = pprof.StartCPUProfile(pf)
		defer pprof.StopCPUProfile()
	}

	shapes, err := c18ReadShapes(*shapesIn)
	if err != nil {
		fmt.Fprintln(os.Stderr, err)
		return 2
	}
	var plans [][]string
	raw, err := os.ReadFile(*plansIn)
	if err == nil {
		err = json.Unmarshal(raw, &plans)
	}
	if err != nil {
		fmt.Fprintln(os.Stderr, err)
		return 2
	}
	sort.Slice(plans, func(i, j int) bool { return planKey(plans[i]) < planKey(plans[j]) })
	roots := c18Roots()
	hasTypes := map[string]bool{}
	for n, t := range roots {
		_, f := c18New(t, c18Shape{Root: n, Chain: []string{"scalar"}, Fill: "wellformed", Payload: "scalar"})
		hasTypes[n] = f.typesMet > 0
	}
	// shapes of a root that holds no ast.Type differ only in a chain nobody reads: keep one per (fill, payload)
	sort.SliceStable(shapes, func(i, j int) bool { return shapes[i].key() < shapes[j].key() })
	st := &c18Stats{Sites: map[string]int{}, CasesWithOp: map[string]int{}, PerRoot: map[string]int{}, FieldsFilled: map[string]int{}}
	var todo []c18Shape
	seenFlat := map[string]bool{}
	for _, s := range shapes {
		if _, ok := roots[s.Root]; !ok {
			fmt.Fprintf(os.Stderr, "shape for unknown root %q\n", s.Root)
			return 2
		}
		if !hasTypes[s.Root] {
			k := s.Root + "|" + s.Fill + "|" + s.Payload
			if seenFlat[k] {
				st.SkippedDup++
				continue
			}
			seenFlat[k] = true
		}
		todo = append(todo, s)
	}
	opts := c18Opts{plans: plans, pairs: *pairs, seed: *seed, traceMax: *traceMax, traceCell: *traceCells}
	quota := *traceMax

	var tw *bufio.Writer
	if *traceOut != "" {
		tf, err := os.Create(*traceOut)
		if err != nil {
			fmt.Fprintln(os.Stderr, err)
			return 2
		}
		defer tf.Close()
		tw = bufio.NewWriterSize(tf, 1<<20)
		defer tw.Flush()
	}
	var mu, omu sync.Mutex
	sigs := map[string]*sigAgg{}
	harness := ""
	traced := 0
	var samples []any
	type job struct {
		idx int
		s   c18Shape
	}
	jobs := make(chan job, 64)
	var wg sync.WaitGroup
	for i := 0; i < *par; i++ {
		wg.Add(1)
		go func() {
			defer wg.Done()
			for jb := range jobs {
				out := c18RunShape(jb.idx, jb.s, roots[jb.s.Root], opts, st, &mu, &quota)
				omu.Lock()
				if out.harness != "" && harness == "" {
					harness = out.harness
				}
				for _, f := range out.findings {
					a := sigs[f.Sig]
					if a == nil {
						a = &sigAgg{}
						sigs[f.Sig] = a
					}
					a.Count++
					if len(a.Examples) < 2 {
						a.Examples = append(a.Examples, f.Ex)
					}
				}
				for _, r := range out.records {
					traced++
					r["n"] = traced
					if tw != nil {
						b, _ := json.Marshal(r)
						tw.Write(b)
						tw.WriteByte('\n')
					}
					if ms, _ := r["muts"].([]mutRec); len(samples) < 2 && len(ms) > 0 && r["ncells"].(int) <= 30 {
						if len(samples) == 0 || r["changed"].(bool) != samples[0].(J)["changed"].(bool) {
							samples = append(samples, r)
						}
					}
				}
				omu.Unlock()
			}
		}()
	}
	// pseudo-random order (seeded) so that the trace quota is spread over all roots
	rank := func(s c18Shape) uint32 {
		h := fnv.New32a()
		fmt.Fprintf(h, "%d|%s", *seed, s.key())
		return h.Sum32()
	}
	sort.SliceStable(todo, func(i, j int) bool { return rank(todo[i]) < rank(todo[j]) })
	for i, s := range todo {
		jobs <- job{i, s}
	}
	close(jobs)
	wg.Wait()
	if harness != "" {
		fmt.Fprintln(os.Stderr, "harness error:", harness)
		return 2
	}
	rootNames := make([]string, 0, len(roots))
	for n := range roots {
		rootNames = append(rootNames, n)
	}
	sort.Strings(rootNames)
	sum := J{"stats": st, "signatures": sigs, "traced": traced, "plans": len(plans), "roots": rootNames, "samples": samples}
	b, _ := json.Marshal(sum)
	os.Stdout.Write(b)
	os.Stdout.WriteString("\n")
	return 0
}
