package main

// C18 - copies of the intermediate representation are faithful and independent.
//
//   c18-roots   the node types with a DeepCopy method, found by reflection (becomes the constant
//               Roots of spec/HeapShapes.tla)
//   c18-run     for every TLC shape: instantiate (c18fill.go), call the REAL DeepCopy method,
//               extract both heap graphs (c18graph.go), judge Iso and Disjoint, then execute the
//               mutation plans derived from spec/HeapMC.tla on the copy and compare a deep snapshot
//               of the original; every judged case can be written as a record for HeapTrace.tla
//   c18-real    real transformations instead of synthetic mutations (c18real.go)
//
// Signatures: C18/<Type>.DeepCopy/<Lost|Differs|Shared|Mutation-visible>/<field>[(any-payload)]
// where <Type> is the innermost node type whose own DeepCopy reproduces the defect and <field> the
// field of that type under which it sits.

import (
	"bufio"
	"encoding/json"
	"flag"
	"fmt"
	goast "go/ast"
	"go/parser"
	"go/token"
	"hash/fnv"
	iofs "io/fs"
	"os"
	"path/filepath"
	"reflect"
	"runtime/pprof"
	"sort"
	"strings"
	"sync"
)

func init() {
	commands["c18-roots"] = c18RootsCmd
	commands["c18-run"] = c18Run
}

func c18RootsCmd(args []string) int {
	fs := flag.NewFlagSet("c18-roots", flag.ExitOnError)
	repo := fs.String("repo", "", "cog source tree: also list the DeepCopy methods and copy helpers declared in its source (go/parser)")
	_ = fs.Parse(args)
	roots := c18Roots()
	names := make([]string, 0, len(roots))
	withTypes := []string{}
	pkgs := map[string]bool{}
	for n, t := range roots {
		names = append(names, n)
		pkgs[t.PkgPath()] = true
		_, f := c18New(t, c18Shape{Root: n, Chain: []string{"scalar"}, Fill: "wellformed", Payload: "scalar"})
		if f.err != nil {
			fmt.Fprintf(os.Stderr, "cannot instantiate %s: %v\n", n, f.err)
			return 2
		}
		if f.typesMet > 0 {
			withTypes = append(withTypes, n)
		}
	}
	sort.Strings(names)
	sort.Strings(withTypes)
	out := J{"roots": names, "with_types": withTypes}
	if *repo != "" {
		decl, err := c18DeclaredCopiers(*repo)
		if err != nil {
			fmt.Fprintln(os.Stderr, err)
			return 2
		}
		out["declared"] = decl
	}
	raw, _ := json.Marshal(out)
	fmt.Println(string(raw))
	return 0
}

// c18DeclaredCopiers parses the non-test Go files under <repo>/internal and lists every method named
// DeepCopy (package directory, receiver type) and every other function or method whose name contains
// "copy" (helpers such as deepCopyAny): the check compares this list, taken from the CURRENT tree,
// with what reflection reached, so that a copy routine on a type the harness does not reach is noticed.
func c18DeclaredCopiers(repo string) ([]J, error) {
	var out []J
	root := filepath.Join(repo, "internal")
	err := filepath.WalkDir(root, func(path string, d iofs.DirEntry, err error) error {
		if err != nil {
			return err
		}
		if d.IsDir() || !strings.HasSuffix(path, ".go") || strings.HasSuffix(path, "_test.go") {
			return nil
		}
		f, err := parser.ParseFile(token.NewFileSet(), path, nil, parser.SkipObjectResolution)
		if err != nil {
			return err
		}
		rel, _ := filepath.Rel(repo, filepath.Dir(path))
		for _, dcl := range f.Decls {
			fd, ok := dcl.(*goast.FuncDecl)
			if !ok || !strings.Contains(strings.ToLower(fd.Name.Name), "copy") {
				continue
			}
			recv := ""
			if fd.Recv != nil && len(fd.Recv.List) == 1 {
				e := fd.Recv.List[0].Type
				if st, ok := e.(*goast.StarExpr); ok {
					e = st.X
				}
				if ix, ok := e.(*goast.IndexListExpr); ok {
					e = ix.X
				}
				if ix, ok := e.(*goast.IndexExpr); ok {
					e = ix.X
				}
				if id, ok := e.(*goast.Ident); ok {
					recv = id.Name
				}
			}
			out = append(out, J{"pkg": filepath.ToSlash(rel), "recv": recv, "name": fd.Name.Name, "file": filepath.Base(path)})
		}
		return nil
	})
	sort.Slice(out, func(i, j int) bool {
		return fmt.Sprint(out[i]["pkg"], out[i]["recv"], out[i]["name"]) < fmt.Sprint(out[j]["pkg"], out[j]["recv"], out[j]["name"])
	})
	return out, err
}

// ------------------------------------------------------------------ analysis of one (original, copy) pair

type c18Analysis struct {
	w         *walker
	o, k, k2  gval
	diffs     []isoDiff   // original vs copy (and vs second copy, where that differs from the first)
	shared    []sharedRec // cells the original shares with the (first) copy: the reportable ones, with paths
	sharedAll int         // all pairs among original, copy, second copy
	between   []sharedRec // cells the two copies share with each other but not with the original
}

// c18Analyse extracts the heap graphs of the original, the copy and (optionally) a second copy taken
// from the same original, and judges Iso and Disjoint.
func c18Analyse(orig, cp reflect.Value, more ...reflect.Value) (*c18Analysis, error) {
	w := newWalker()
	a := &c18Analysis{w: w}
	a.o = w.root(orig, "o")
	a.k = w.root(cp, "k")
	if len(more) > 0 {
		a.k2 = w.root(more[0], "k2")
	}
	if w.err != nil {
		return nil, w.err
	}
	w.iso(a.o, a.k, nil, &a.diffs)
	if len(more) > 0 {
		var d2 []isoDiff
		w.iso(a.o, a.k2, nil, &d2)
		if len(d2) != len(a.diffs) { // the same routine on the same value: report what only the second call shows
			a.diffs = append(a.diffs, d2...)
		}
	}
	a.sharedAll = len(w.shared)
	for _, sh := range w.shared {
		switch {
		case sh.a == 0 && sh.b == 1:
			a.shared = append(a.shared, sh)
		case sh.a == 1 && sh.b == 2:
			a.between = append(a.between, sh)
		}
	}
	for _, ov := range w.overlaps() {
		a.sharedAll++
		a.shared = append(a.shared, sharedRec{cell: ov, kind: "arr-overlap"})
	}
	return a, nil
}

func prefixOf(p, q []pstep) bool {
	if len(p) > len(q) {
		return false
	}
	for i := range p {
		if p[i].kind != q[i].kind || p[i].label != q[i].label {
			return false
		}
	}
	return true
}

// reproduces: does the DeepCopy of sub alone show a defect of this class at (or above) rel?
func c18Reproduces(sub reflect.Value, rel []pstep, class string) bool {
	cp, err := c18DeepCopy(sub)
	if err != nil {
		return false
	}
	a, err := c18Analyse(sub, cp)
	if err != nil {
		return false
	}
	if class == "Shared" {
		for _, s := range a.shared {
			if s.origPath != nil && prefixOf(s.origPath, rel) {
				return true
			}
		}
		return false
	}
	for _, d := range a.diffs {
		if d.class == class && prefixOf(d.path, rel) {
			return true
		}
	}
	return false
}

type c18Attr struct {
	typ   string
	field string
}

// c18Attribute finds the innermost node type on the path whose own DeepCopy reproduces the defect.
func c18Attribute(root reflect.Value, rootName string, path []pstep, class string) c18Attr {
	a, _ := c18AttributeR(root, rootName, path, class, false)
	return a
}

// c18AttributeR: with testRoot the root's own DeepCopy is tested too; ok=false means no DeepCopy
// method on the path reproduces the defect (it was introduced by whoever produced the copy)
func c18AttributeR(root reflect.Value, rootName string, path []pstep, class string, testRoot bool) (c18Attr, bool) {
	type cand struct {
		v   reflect.Value
		idx int
	}
	var cands []cand
	cur := root
	unwrap := func() bool {
		for cur.Kind() == reflect.Interface || cur.Kind() == reflect.Ptr {
			if cur.IsNil() {
				return false
			}
			cur = cur.Elem()
		}
		return true
	}
	ok := true
	for i, st := range path {
		if !unwrap() {
			ok = false
			break
		}
		if c18HasDeepCopy(cur.Type()) {
			cands = append(cands, cand{cur, i})
		}
		switch st.kind {
		case "field":
			if cur.Kind() != reflect.Struct {
				ok = false
				break
			}
			sf, found := cur.Type().FieldByName(st.label)
			if !found {
				ok = false
				break
			}
			cur = cleanField(cur, sf.Index[0])
		case "index":
			var n int
			fmt.Sscanf(st.label, "%d", &n)
			if cur.Kind() != reflect.Slice || n < 1 || n > cur.Len() {
				ok = false
				break
			}
			cur = cur.Index(n - 1)
		default:
			if cur.Kind() != reflect.Map {
				ok = false
				break
			}
			found := false
			for _, k := range cur.MapKeys() {
				if keyString(k) == st.label {
					cur = cur.MapIndex(k)
					found = true
					break
				}
			}
			ok = found
		}
		if !ok {
			break
		}
	}
	describe := func(typ string, rel []pstep) c18Attr {
		field := "(root)"
		if len(rel) > 0 {
			switch rel[0].kind {
			case "field":
				field = rel[0].label
			case "index":
				field = "[]"
			default:
				field = "{}"
			}
		}
		if class == "Shared" {
			for _, s := range rel {
				if s.any {
					field += "(any-payload)"
					break
				}
			}
		}
		return c18Attr{typ, field}
	}
	last := 1
	if testRoot {
		last = 0
	}
	for j := len(cands) - 1; j >= last; j-- {
		c := cands[j]
		if !c.v.CanInterface() {
			continue
		}
		rel := path[c.idx:]
		if c18Reproduces(addressable(c.v), rel, class) {
			return describe(c.v.Type().Name(), rel), true
		}
	}
	return describe(rootName, path), !testRoot
}

// ------------------------------------------------------------------ one shape

type c18Finding struct {
	Sig string
	Ex  J
}

type c18Stats struct {
	Cases        int            `json:"cases"`  // (shape, plan) executions
	Shapes       int            `json:"shapes"` // shapes instantiated
	SkippedDup   int            `json:"skipped_duplicate_shapes"`
	Cells        int            `json:"cells"` // cells extracted over all shapes
	MaxCells     int            `json:"max_cells"`
	Sites        map[string]int `json:"sites_per_op"` // writes performed on copies, per mutation kind
	CasesWithOp  map[string]int `json:"cases_per_op"` // executions in which the op had at least one site
	PerRoot      map[string]int `json:"shapes_per_root"`
	IsoOK        int            `json:"shapes_iso_ok"`
	DisjointOK   int            `json:"shapes_disjoint_ok"`
	Visible      int            `json:"cases_with_visible_mutation"`
	Recopies     int            `json:"recopies_judged"`  // second calls on a mutated original and copies of copies, judged like first copies
	Nontrivial   int            `json:"nontrivial_cases"` // executions whose plan performed at least one write on the copy
	FieldsFilled map[string]int `json:"observable_leaves_per_root"`
}

// c18Step: one step of a mutation plan: mutation kind op performed at every site of value a (o, k, k2)
type c18Step struct {
	A  string `json:"a"`
	Op string `json:"op"`
}

type c18Plans struct {
	Core   [][]c18Step `json:"core"`   // executed on every shape: together they reveal every defect class of HeapMC
	Rotate [][]c18Step `json:"rotate"` // the other revealing plans: a few per shape, in rotation
}

type c18Opts struct {
	plans     c18Plans
	pairs     int
	seed      int
	traceMax  int
	traceCell int
}

type c18Out struct {
	findings []c18Finding
	records  []J
	harness  string
}

// longestPrefix finds the longest prefix of a flattened path (cut at step boundaries) accepted by has
func longestPrefix(path string, has func(string) bool) (string, bool) {
	for i := len(path); i > 0; i-- {
		if i == len(path) || path[i] == '.' || path[i] == '[' || path[i] == '{' || path[i] == '#' {
			if has(path[:i]) {
				return path[:i], true
			}
		}
	}
	return "", false
}

func planKey(p []c18Step) string {
	parts := []string{}
	for _, st := range p {
		parts = append(parts, st.A+":"+st.Op)
	}
	return strings.Join(parts, "+")
}

func c18PlansFor(idx int, o c18Opts) [][]c18Step {
	out := append([][]c18Step{}, o.plans.Core...)
	rot := o.plans.Rotate
	if o.pairs < 0 || o.pairs >= len(rot) {
		return append(out, rot...)
	}
	for j := 0; j < o.pairs && len(rot) > 0; j++ {
		out = append(out, rot[(idx*o.pairs+j+o.seed)%len(rot)])
	}
	return out
}

func firstField(flatPath string) string {
	f := strings.SplitN(flatPath+".", ".", 3)[1]
	if i := strings.IndexAny(f, "[{#"); i >= 0 {
		f = f[:i]
	}
	return f
}

func c18RunShape(idx int, s c18Shape, t reflect.Type, o c18Opts, st *c18Stats, mu *sync.Mutex, traceQuota *int) c18Out {
	var out c18Out
	add := func(sig string, ex J) { out.findings = append(out.findings, c18Finding{sig, ex}) }
	shapeJ := J{"root": s.Root, "chain": s.Chain, "fill": s.Fill, "payload": s.Payload}

	// attribution of shared cells, by their path in the original and in the copy (the same in every instance:
	// the filler is deterministic)
	byOrigPath := map[string]c18Attr{}
	byCopyPath := map[string]c18Attr{}
	memo := map[string]c18Attr{}
	attribute := func(root reflect.Value, path []pstep, class string) c18Attr {
		key := class + "|" + pathNorm(path)
		for _, p := range path {
			if p.any {
				key += "|any"
				break
			}
		}
		if a, ok := memo[key]; ok {
			return a
		}
		a := c18Attribute(root, s.Root, path, class)
		memo[key] = a
		return a
	}

	plans := c18PlansFor(idx, o)
	small := false // heap small enough for HeapTrace.tla (decided on the first instance)
	recopiedAfterO := false
	for pi, plan := range plans {
		orig, f := c18New(t, s)
		if f.err != nil {
			out.harness = fmt.Sprintf("filler: %s: %v", s.key(), f.err)
			return out
		}
		var before map[string]string
		if pi == 0 {
			before = map[string]string{}
			flatten(orig, "", before)
		}
		cp, err := c18DeepCopy(orig)
		var cp2 reflect.Value
		if err == nil {
			cp2, err = c18DeepCopy(orig)
		}
		if err != nil {
			add(fmt.Sprintf("C18/%s.DeepCopy/panic/%s", s.Root, s.Fill), J{"shape": shapeJ, "problem": err.Error()})
			return out
		}
		vals := map[string]reflect.Value{"o": orig, "k": cp, "k2": cp2}
		var an *c18Analysis
		wantTrace := false
		if pi == 0 || small {
			an, err = c18Analyse(orig, cp, cp2)
			if err != nil {
				out.harness = fmt.Sprintf("extract: %s: %v", s.key(), err)
				return out
			}
			small = o.traceMax > 0 && len(an.w.cells) <= o.traceCell
			wantTrace = small
		}
		if pi == 0 {
			afterCopy := map[string]string{}
			flatten(orig, "", afterCopy)
			if d := flatDiff(before, afterCopy); len(d) > 0 {
				add(fmt.Sprintf("C18/%s.DeepCopy/Mutates-receiver/%s", s.Root, firstField(d[0])),
					J{"shape": shapeJ, "changed": d[:min(len(d), 5)]})
			}
			mu.Lock()
			st.Shapes++
			st.PerRoot[s.Root]++
			st.Cells += len(an.w.cells)
			if len(an.w.cells) > st.MaxCells {
				st.MaxCells = len(an.w.cells)
			}
			if len(an.diffs) == 0 {
				st.IsoOK++
			}
			if an.sharedAll == 0 {
				st.DisjointOK++
			}
			if len(before) > st.FieldsFilled[s.Root] {
				st.FieldsFilled[s.Root] = len(before)
			}
			mu.Unlock()
			for _, d := range an.diffs {
				at := attribute(orig, d.path, d.class)
				add(fmt.Sprintf("C18/%s.DeepCopy/%s/%s", at.typ, d.class, at.field),
					J{"shape": shapeJ, "path": pathString(d.path), "original": d.a, "copy": d.b})
			}
			for _, sh := range an.shared {
				if sh.origPath == nil {
					add(fmt.Sprintf("C18/%s.DeepCopy/Shared/overlapping-arrays", s.Root), J{"shape": shapeJ, "cells": sh.cell})
					continue
				}
				at := attribute(orig, sh.origPath, "Shared")
				byOrigPath[pathString(sh.origPath)] = at
				byCopyPath[pathString(sh.copyPath)] = at
				add(fmt.Sprintf("C18/%s.DeepCopy/Shared/%s", at.typ, at.field),
					J{"shape": shapeJ, "path": pathString(sh.origPath), "copy_path": pathString(sh.copyPath), "cell_kind": sh.kind,
						"cap": an.w.cells[sh.cell].Cap, "len_seen_by_original": len(an.w.cells[sh.cell].Slots)})
			}
			for _, sh := range an.between {
				at := c18Attr{s.Root, firstField(pathString(sh.origPath))}
				byCopyPath[pathString(sh.origPath)] = at
				byCopyPath[pathString(sh.copyPath)] = at
				add(fmt.Sprintf("C18/%s.DeepCopy/Shared-between-copies/%s", at.typ, at.field),
					J{"shape": shapeJ, "path_in_first_copy": pathString(sh.origPath), "path_in_second_copy": pathString(sh.copyPath)})
			}
		}
		// ---- the mutation plan: each step through one value; after each step the other two must be unchanged
		mw := newWalker()
		if an != nil {
			mw = an.w
		}
		base := map[string]map[string]string{}
		for name, v := range vals {
			base[name] = map[string]string{}
			flatten(v, "", base[name])
		}
		type stepRec struct {
			A    string   `json:"a"`
			Op   string   `json:"op"`
			Muts []mutRec `json:"muts"`
		}
		steps := []stepRec{}
		leaks := map[string]bool{}
		opsWithSites := map[string]bool{}
		writes := 0
		seenSig := map[string]bool{}
		for si, stp := range plan {
			mw.mut, mw.seen, mw.muts = stp.Op, map[string]bool{}, nil
			mw.root(vals[stp.A], stp.A)
			if mw.err != nil {
				out.harness = fmt.Sprintf("mutate: %s: %v", s.key(), mw.err)
				return out
			}
			ms := append([]mutRec{}, mw.muts...)
			steps = append(steps, stepRec{stp.A, stp.Op, ms})
			writes += len(ms)
			if len(ms) > 0 {
				opsWithSites[stp.Op] = true
			}
			mu.Lock()
			for _, m := range ms {
				st.Sites[m.Op]++
			}
			mu.Unlock()
			for _, victim := range []string{"o", "k", "k2"} {
				if victim == stp.A && si == len(plan)-1 {
					continue
				}
				cur := map[string]string{}
				flatten(vals[victim], "", cur)
				if victim != stp.A {
					changed := flatDiff(base[victim], cur)
					if len(changed) > 0 {
						leaks[stp.A+">"+victim] = true
					}
					for _, cpath := range changed {
						lookup := byCopyPath
						if victim == "o" {
							lookup = byOrigPath
						}
						sig := ""
						if ps, found := longestPrefix(cpath, func(p string) bool { _, in := lookup[p]; return in }); found {
							at := lookup[ps]
							sig = fmt.Sprintf("C18/%s.DeepCopy/Mutation-visible/%s", at.typ, at.field)
						} else {
							sig = fmt.Sprintf("C18/%s.DeepCopy/Mutation-visible/unattributed:%s", s.Root, firstField(cpath))
						}
						if seenSig[sig] {
							continue
						}
						seenSig[sig] = true
						add(sig, J{"shape": shapeJ, "plan": plan, "step": si + 1, "through": stp.A, "changed_in": victim, "path": cpath,
							"was": base[victim][cpath], "now": cur[cpath]})
					}
				}
				base[victim] = cur
			}
		}
		mw.mut = ""
		// ---- state that survives between calls: copy the (possibly mutated) original AGAIN and copy the copy;
		// both must again be faithful and share nothing with what they were taken from (nor the copy of the copy
		// with the original). Done once per shape: after the first plan with a step through the original.
		throughO := false
		for _, stp := range plan {
			throughO = throughO || stp.A == "o"
		}
		if !recopiedAfterO && (throughO || pi == len(plans)-1) {
			recopiedAfterO = true
			again := func(what string, from, other reflect.Value) {
				c, err := c18DeepCopy(from)
				if err != nil {
					add(fmt.Sprintf("C18/%s.DeepCopy/panic/%s", s.Root, what), J{"shape": shapeJ, "plan": plan, "problem": err.Error()})
					return
				}
				a2, err := c18Analyse(from, c)
				if err != nil {
					out.harness = fmt.Sprintf("extract (%s): %s: %v", what, s.key(), err)
					return
				}
				for _, d := range a2.diffs {
					at := attribute(from, d.path, d.class)
					add(fmt.Sprintf("C18/%s.DeepCopy/%s/%s", at.typ, d.class, at.field),
						J{"shape": shapeJ, "plan": plan, "seen_on": what, "path": pathString(d.path), "original": d.a, "copy": d.b})
				}
				for _, sh := range a2.shared {
					if sh.origPath == nil {
						continue
					}
					at := attribute(from, sh.origPath, "Shared")
					add(fmt.Sprintf("C18/%s.DeepCopy/Shared/%s", at.typ, at.field),
						J{"shape": shapeJ, "plan": plan, "seen_on": what, "path": pathString(sh.origPath)})
				}
				if other.IsValid() {
					a3, err := c18Analyse(other, c)
					if err == nil {
						for _, sh := range a3.shared {
							if sh.origPath != nil {
								// same attribution as for a first copy (sharing is usually inherited through the copy)
								at := attribute(other, sh.origPath, "Shared")
								add(fmt.Sprintf("C18/%s.DeepCopy/Shared/%s", at.typ, at.field),
									J{"shape": shapeJ, "plan": plan, "seen_on": "copy of the copy reaches the original", "path_in_original": pathString(sh.origPath)})
							}
						}
					}
				}
				mu.Lock()
				st.Recopies++
				mu.Unlock()
			}
			again("second-call-after-mutations", orig, reflect.Value{})
			again("copy-of-the-copy", cp, orig)
			if out.harness != "" {
				return out
			}
		}
		mu.Lock()
		st.Cases++
		for op := range opsWithSites {
			st.CasesWithOp[op]++
		}
		if len(leaks) > 0 {
			st.Visible++
		}
		if writes > 0 {
			st.Nontrivial++
		}
		mu.Unlock()
		// ---- record for HeapTrace.tla
		if wantTrace {
			mu.Lock()
			take := *traceQuota > 0
			if take {
				*traceQuota--
			}
			mu.Unlock()
			if take {
				ls := []string{}
				for l := range leaks {
					ls = append(ls, l)
				}
				sort.Strings(ls)
				out.records = append(out.records, J{
					"shape": shapeJ, "plan": plan, "cells": an.w.cells, "o": an.o, "k": an.k, "k2": an.k2, "steps": steps,
					"leaks": ls, "go_iso": len(an.diffs) == 0, "go_disjoint": an.sharedAll == 0,
					"ncells": len(an.w.cells), "writes": writes,
				})
			}
		}
	}
	return out
}

func c18ReadShapes(path string) ([]c18Shape, error) {
	f, err := os.Open(path)
	if err != nil {
		return nil, err
	}
	defer f.Close()
	var shapes []c18Shape
	sc := bufio.NewScanner(f)
	sc.Buffer(make([]byte, 1<<20), 1<<26)
	for sc.Scan() {
		line := strings.TrimSpace(sc.Text())
		if line == "" {
			continue
		}
		var s c18Shape
		if err := json.Unmarshal([]byte(line), &s); err != nil {
			return nil, err
		}
		shapes = append(shapes, s)
	}
	return shapes, sc.Err()
}

func c18Run(args []string) int {
	fs := flag.NewFlagSet("c18-run", flag.ExitOnError)
	shapesIn := fs.String("shapes", "", "ndjson file of shapes (HeapShapes.tla)")
	plansIn := fs.String("plans", "", "json file {core: [...], rotate: [...]}: mutation plans = lists of {a, op} steps (HeapMC.tla)")
	pairs := fs.Int("pairs", -1, "number of plans of the rotating set per shape; -1 = all")
	seed := fs.Int("seed", 1, "rotation offset")
	traceOut := fs.String("trace", "", "write records for HeapTrace.tla")
	traceMax := fs.Int("trace-max", 0, "maximum number of trace records")
	traceCells := fs.Int("trace-cells", 150, "only heaps with at most this many cells are traced")
	par := fs.Int("par", 16, "parallel workers")
	prof := fs.String("cpuprofile", "", "write a CPU profile (diagnostics)")
	progressOut := fs.String("progress", "", "append start/done events per shape (to attribute a fatal crash to the shapes in flight)")
	_ = fs.Parse(args)
	if *prof != "" {
		pf, _ := os.Create(*prof)
		_ = pprof.StartCPUProfile(pf)
		defer pprof.StopCPUProfile()
	}

	shapes, err := c18ReadShapes(*shapesIn)
	if err != nil {
		fmt.Fprintln(os.Stderr, err)
		return 2
	}
	var plans c18Plans
	raw, err := os.ReadFile(*plansIn)
	if err == nil {
		err = json.Unmarshal(raw, &plans)
	}
	if err != nil {
		fmt.Fprintln(os.Stderr, err)
		return 2
	}
	sort.Slice(plans.Core, func(i, j int) bool { return planKey(plans.Core[i]) < planKey(plans.Core[j]) })
	sort.Slice(plans.Rotate, func(i, j int) bool { return planKey(plans.Rotate[i]) < planKey(plans.Rotate[j]) })
	roots := c18Roots()
	hasTypes := map[string]bool{}
	for n, t := range roots {
		_, f := c18New(t, c18Shape{Root: n, Chain: []string{"scalar"}, Fill: "wellformed", Payload: "scalar"})
		hasTypes[n] = f.typesMet > 0
	}
	// shapes of a root that holds no ast.Type differ only in a chain nobody reads: keep one per (fill, payload)
	sort.SliceStable(shapes, func(i, j int) bool { return shapes[i].key() < shapes[j].key() })
	st := &c18Stats{Sites: map[string]int{}, CasesWithOp: map[string]int{}, PerRoot: map[string]int{}, FieldsFilled: map[string]int{}}
	var todo []c18Shape
	seenFlat := map[string]bool{}
	for _, s := range shapes {
		if _, ok := roots[s.Root]; !ok {
			fmt.Fprintf(os.Stderr, "shape for unknown root %q\n", s.Root)
			return 2
		}
		if !hasTypes[s.Root] {
			k := s.Root + "|" + s.Fill + "|" + s.Payload
			if seenFlat[k] {
				st.SkippedDup++
				continue
			}
			seenFlat[k] = true
		}
		todo = append(todo, s)
	}
	opts := c18Opts{plans: plans, pairs: *pairs, seed: *seed, traceMax: *traceMax, traceCell: *traceCells}
	quota := *traceMax

	var tw *bufio.Writer
	if *traceOut != "" {
		tf, err := os.Create(*traceOut)
		if err != nil {
			fmt.Fprintln(os.Stderr, err)
			return 2
		}
		defer tf.Close()
		tw = bufio.NewWriterSize(tf, 1<<20)
		defer tw.Flush()
	}
	var mu, omu sync.Mutex
	sigs := map[string]*sigAgg{}
	var harnessErrs []string
	var pf *os.File
	if *progressOut != "" {
		pf, _ = os.Create(*progressOut)
		defer pf.Close()
	}
	progress := func(ev string, idx int, s c18Shape) { // omu held; unbuffered so that a fatal crash leaves it complete
		if pf != nil {
			b, _ := json.Marshal(J{"ev": ev, "idx": idx, "shape": s})
			pf.Write(append(b, '\n'))
		}
	}
	traced := 0
	var samples []any
	type job struct {
		idx int
		s   c18Shape
	}
	jobs := make(chan job, 64)
	var wg sync.WaitGroup
	for i := 0; i < *par; i++ {
		wg.Add(1)
		go func() {
			defer wg.Done()
			for jb := range jobs {
				omu.Lock()
				progress("start", jb.idx, jb.s)
				omu.Unlock()
				out := c18RunShape(jb.idx, jb.s, roots[jb.s.Root], opts, st, &mu, &quota)
				omu.Lock()
				if out.harness != "" {
					harnessErrs = append(harnessErrs, out.harness)
				}
				progress("done", jb.idx, jb.s)
				for _, f := range out.findings {
					a := sigs[f.Sig]
					if a == nil {
						a = &sigAgg{}
						sigs[f.Sig] = a
					}
					a.Count++
					if len(a.Examples) < 2 {
						a.Examples = append(a.Examples, f.Ex)
					}
				}
				for _, r := range out.records {
					traced++
					r["n"] = traced
					if tw != nil {
						b, _ := json.Marshal(r)
						tw.Write(b)
						tw.WriteByte('\n')
					}
					if len(samples) < 2 && r["writes"].(int) > 0 && r["ncells"].(int) <= 40 {
						if len(samples) == 0 || len(r["leaks"].([]string)) != len(samples[0].(J)["leaks"].([]string)) {
							samples = append(samples, r)
						}
					}
				}
				omu.Unlock()
			}
		}()
	}
	// pseudo-random order (seeded) so that the trace quota is spread over all roots
	rank := func(s c18Shape) uint32 {
		h := fnv.New32a()
		fmt.Fprintf(h, "%d|%s", *seed, s.key())
		return h.Sum32()
	}
	sort.SliceStable(todo, func(i, j int) bool { return rank(todo[i]) < rank(todo[j]) })
	for i, s := range todo {
		jobs <- job{i, s}
	}
	close(jobs)
	wg.Wait()
	if len(harnessErrs) > 5 {
		harnessErrs = harnessErrs[:5]
	}
	rootNames := make([]string, 0, len(roots))
	for n := range roots {
		rootNames = append(rootNames, n)
	}
	sort.Strings(rootNames)
	sum := J{"stats": st, "signatures": sigs, "traced": traced, "plans": len(plans.Core) + len(plans.Rotate), "roots": rootNames, "samples": samples, "harness_errors": harnessErrs}
	b, _ := json.Marshal(sum)
	os.Stdout.Write(b)
	os.Stdout.WriteString("\n")
	return 0
}
