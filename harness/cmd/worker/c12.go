package main

// C12 - emitted JSON Schema / OpenAPI documents (DESIGN 6 "C12"). Two sub-commands on top of the
// generated-code batch pipeline of sem.go, both ndjson in / ndjson out:
//
//   c12-ir     one job per line {"id","yaml"}: load the REAL pipeline described by the YAML file,
//              LoadSchemas (parsers + common passes) and ContextForLanguage for the `jsonschema` and
//              `openapi` output languages (their compiler passes): the IR the two schema jennies
//              really consume, projected with projSchemas (ir.go). One record per job:
//              {"id","err","panic","ir":[Schema...],"openapi_same":bool}.
//   c12-check  one job per line {"id","pkg","jsonschema":text,"openapi":text,"object":"Root",
//              "docs":[<json>...]}: what independent loaders and cog's own parsers say about the
//              emitted documents, and kin-openapi's verdict on every encoded document:
//                js_own      cog's JSON Schema parser (jsonschema.GenerateAST) on the emitted file; `ir` = the
//                            re-parsed schema (round trip: emitted document -> cog's parser -> IR)
//                oa_load     openapi3 loader, configured like cog's own OpenAPI input
//                oa_validate openapi3.T.Validate
//                oa_own      cog's OpenAPI parser (openapi.GenerateAST, Validate on)
//                oa_docs     Components.Schemas[object].VisitJSON(doc) with the first error's pointer/keyword

import (
	"bufio"
	"bytes"
	"context"
	"encoding/json"
	"errors"
	"fmt"
	"os"
	"path/filepath"
	"runtime/debug"
	"sort"
	"strings"

	"github.com/getkin/kin-openapi/openapi3"
	"github.com/grafana/codejen"
	"github.com/grafana/cog/verifapi"
)

func init() {
	commands["c12-ir"] = c12IR
	commands["c12-check"] = c12Check
	commands["c12-emit-ir"] = c12EmitIR
}

// c12-emit-ir: the IR-BUILT route. One job per line {"id","root","compact","ir":[Schema...]} (the projection format of
// ir.go, built by the check from a schema term): the schemas are handed to the REAL jsonschema and openapi languages -
// their compiler passes, then Language.Jennies(config).GenerateFS - without any input parser in between. The emitted files
// are written below <root>/<language>/ and the IR the jennies consumed is returned.
type c12EmitJob struct {
	ID      string `json:"id"`
	Root    string `json:"root"`
	Compact bool   `json:"compact"`
	IR      []any  `json:"ir"`
	Passes  string `json:"passes,omitempty"` // a compiler-passes file (the pipeline's `transformations.schemas`), applied first
}

type c12EmitResult struct {
	ID    string   `json:"id"`
	OK    bool     `json:"ok"`
	Err   string   `json:"err,omitempty"`
	Panic string   `json:"panic,omitempty"`
	Files []string `json:"files,omitempty"`
	IR    []any    `json:"ir,omitempty"`
}

func c12EmitOne(job c12EmitJob) (res c12EmitResult) {
	res.ID = job.ID
	defer func() {
		if r := recover(); r != nil {
			res.OK = false
			res.Panic = fmt.Sprintf("%v\n%s", r, topFrames(string(debug.Stack()), 12))
		}
	}()
	langs := []verifapi.Language{
		verifapi.NewJSONSchema(verifapi.JSONSchemaConfig{Compact: job.Compact}),
		verifapi.NewOpenAPI(verifapi.OpenAPIConfig{Compact: job.Compact}),
	}
	generated := codejen.NewFS()
	for _, lang := range langs {
		schemas, err := unprojSchemas(job.IR) // a fresh copy per language
		if err != nil {
			res.Err = "ir: " + err.Error()
			return res
		}
		if job.Passes != "" {
			// as Pipeline.LoadSchemas applies the common passes: cog's own loader of compiler-passes files, before the language's passes
			common, err := verifapi.NewCompilerLoader().PassesFrom([]string{job.Passes})
			if err != nil {
				res.Err = "transformations: " + err.Error()
				return res
			}
			schemas, err = common.Process(schemas)
			if err != nil {
				res.Err = "transformations: " + err.Error()
				return res
			}
		}
		schemas, err = lang.CompilerPasses().Process(schemas)
		if err != nil {
			res.Err = lang.Name() + " passes: " + err.Error()
			return res
		}
		if lang.Name() == "jsonschema" {
			res.IR = projSchemas(schemas)
		}
		jl := lang.Jennies(verifapi.LanguageConfig{Types: true})
		dir := lang.Name()
		jl.AddPostprocessors(func(f codejen.File) (codejen.File, error) {
			f.RelativePath = filepath.Join(dir, f.RelativePath)
			return f, nil
		})
		fs, err := jl.GenerateFS(verifapi.LanguageContext{Schemas: schemas})
		if err != nil {
			res.Err = lang.Name() + ": " + err.Error()
			return res
		}
		if err := generated.Merge(fs); err != nil {
			res.Err = err.Error()
			return res
		}
	}
	for _, f := range generated.AsFiles() {
		res.Files = append(res.Files, f.RelativePath)
	}
	sort.Strings(res.Files)
	if err := generated.Write(context.Background(), job.Root); err != nil {
		res.Err = "write: " + err.Error()
		return res
	}
	res.OK = true
	return res
}

func c12EmitIR(args []string) int {
	in := bufio.NewScanner(os.Stdin)
	in.Buffer(make([]byte, 1<<20), 1<<26)
	out := bufio.NewWriter(os.Stdout)
	defer out.Flush()
	enc := json.NewEncoder(out)
	enc.SetEscapeHTML(false)
	for in.Scan() {
		if len(bytes.TrimSpace(in.Bytes())) == 0 {
			continue
		}
		var job c12EmitJob
		if err := json.Unmarshal(in.Bytes(), &job); err != nil {
			fmt.Fprintln(os.Stderr, "c12-emit-ir: bad job:", err)
			return 2
		}
		_ = enc.Encode(c12EmitOne(job))
	}
	return 0
}

type c12IRJob struct {
	ID   string `json:"id"`
	YAML string `json:"yaml"`
}

type c12IRResult struct {
	ID          string `json:"id"`
	Err         string `json:"err,omitempty"`
	Panic       string `json:"panic,omitempty"`
	IR          []any  `json:"ir,omitempty"`
	OpenAPISame bool   `json:"openapi_same"`
}

func c12IROne(job c12IRJob) (res c12IRResult) {
	res.ID = job.ID
	defer func() {
		if r := recover(); r != nil {
			res.Panic = fmt.Sprintf("%v\n%s", r, topFrames(string(debug.Stack()), 12))
		}
	}()
	pipeline, err := verifapi.PipelineFromFile(job.YAML, verifapi.PipelineParameters(map[string]string{}))
	if err != nil {
		res.Err = "config: " + err.Error()
		return res
	}
	langs, err := pipeline.OutputLanguages()
	if err != nil {
		res.Err = "languages: " + err.Error()
		return res
	}
	var canonJS string
	for _, name := range []string{"jsonschema", "openapi"} {
		lang, ok := langs[name]
		if !ok {
			res.Err = "pipeline has no output language " + name
			return res
		}
		// a fresh load per language: compiler passes never see another language's result
		schemas, err := pipeline.LoadSchemas(context.Background())
		if err != nil {
			res.Err = "load: " + err.Error()
			return res
		}
		lctx, err := pipeline.ContextForLanguage(lang, schemas)
		if err != nil {
			res.Err = name + " passes: " + err.Error()
			return res
		}
		ir := projSchemas(lctx.Schemas)
		if name == "jsonschema" {
			res.IR = ir
			canonJS = canon(ir)
		} else {
			res.OpenAPISame = canon(ir) == canonJS
		}
	}
	return res
}

func c12IR(args []string) int {
	in := bufio.NewScanner(os.Stdin)
	in.Buffer(make([]byte, 1<<20), 1<<26)
	out := bufio.NewWriter(os.Stdout)
	defer out.Flush()
	enc := json.NewEncoder(out)
	enc.SetEscapeHTML(false)
	for in.Scan() {
		if len(bytes.TrimSpace(in.Bytes())) == 0 {
			continue
		}
		var job c12IRJob
		if err := json.Unmarshal(in.Bytes(), &job); err != nil {
			fmt.Fprintln(os.Stderr, "c12-ir: bad job:", err)
			return 2
		}
		_ = enc.Encode(c12IROne(job))
	}
	return 0
}

type c12CheckJob struct {
	ID         string            `json:"id"`
	Pkg        string            `json:"pkg"`
	JSONSchema string            `json:"jsonschema"`
	OpenAPI    string            `json:"openapi"`
	Object     string            `json:"object"`
	Docs       []json.RawMessage `json:"docs"`
}

type c12Verdict struct {
	Ran     bool     `json:"ran"`
	OK      bool     `json:"ok"`
	Err     string   `json:"err,omitempty"`
	Objects []string `json:"objects,omitempty"`
	IR      []any    `json:"ir,omitempty"` // the re-parsed schema, projected like c12-ir (round trip)
}

type c12DocVerdict struct {
	OK    bool     `json:"ok"`
	Err   string   `json:"err,omitempty"`
	Ptr   []string `json:"ptr"`
	Field string   `json:"field,omitempty"`
}

type c12CheckResult struct {
	ID         string          `json:"id"`
	JSOwn      c12Verdict      `json:"js_own"`
	OALoad     c12Verdict      `json:"oa_load"`
	OAValidate c12Verdict      `json:"oa_validate"`
	OAOwn      c12Verdict      `json:"oa_own"`
	OAObject   bool            `json:"oa_object"`
	OADocs     []c12DocVerdict `json:"oa_docs"`
}

func guarded(v *c12Verdict, f func() error) {
	v.Ran = true
	defer func() {
		if r := recover(); r != nil {
			v.OK = false
			v.Err = fmt.Sprintf("panic: %v", r)
		}
	}()
	if err := f(); err != nil {
		v.Err = firstLine(err.Error())
		return
	}
	v.OK = true
}

func objectNames(s *verifapi.Schema) []string {
	var names []string
	if s == nil || s.Objects == nil {
		return names
	}
	s.Objects.Iterate(func(name string, _ verifapi.Object) {
		names = append(names, name)
	})
	sort.Strings(names)
	return names
}

func c12CheckOne(job c12CheckJob) (res c12CheckResult) {
	res.ID = job.ID
	if job.JSONSchema != "" {
		guarded(&res.JSOwn, func() error {
			s, err := verifapi.JSONSchemaGenerateAST(strings.NewReader(job.JSONSchema), verifapi.JSONSchemaParserConfig{Package: job.Pkg})
			if err == nil {
				res.JSOwn.Objects = objectNames(s)
				res.JSOwn.IR = projSchemas(verifapi.Schemas{s})
			}
			return err
		})
	}
	if job.OpenAPI == "" {
		return res
	}
	var doc *openapi3.T
	guarded(&res.OALoad, func() error {
		// as internal/codegen/openapi.go loads its inputs
		loader := openapi3.NewLoader()
		loader.Context = context.Background()
		loader.IsExternalRefsAllowed = true
		d, err := loader.LoadFromData([]byte(job.OpenAPI))
		doc = d
		return err
	})
	if !res.OALoad.OK || doc == nil {
		return res
	}
	guarded(&res.OAValidate, func() error {
		return doc.Validate(context.Background())
	})
	guarded(&res.OAOwn, func() error {
		s, err := verifapi.OpenAPIGenerateAST(context.Background(), doc, verifapi.OpenAPIParserConfig{Package: job.Pkg, Validate: true})
		if err == nil {
			res.OAOwn.Objects = objectNames(s)
			res.OAOwn.IR = projSchemas(verifapi.Schemas{s})
		}
		return err
	})
	if job.Object == "" || doc.Components == nil {
		return res
	}
	ref := doc.Components.Schemas[job.Object]
	if ref == nil || ref.Value == nil {
		return res
	}
	res.OAObject = true
	res.OADocs = make([]c12DocVerdict, len(job.Docs))
	for i, raw := range job.Docs {
		res.OADocs[i] = c12Visit(ref.Value, raw)
	}
	return res
}

func c12Visit(schema *openapi3.Schema, raw json.RawMessage) (v c12DocVerdict) {
	v.Ptr = []string{}
	defer func() {
		if r := recover(); r != nil {
			v.OK = false
			v.Err = fmt.Sprintf("panic: %v", r)
		}
	}()
	var x any
	if err := json.Unmarshal(raw, &x); err != nil {
		v.Err = "not json: " + err.Error()
		return v
	}
	err := schema.VisitJSON(x, openapi3.EnableFormatValidation())
	if err == nil {
		v.OK = true
		return v
	}
	v.Err = firstLine(err.Error())
	var se *openapi3.SchemaError
	if errors.As(err, &se) {
		// descend to the innermost schema error (oneOf/anyOf wrap the branch errors in Origin)
		for {
			var inner *openapi3.SchemaError
			if se.Origin != nil && errors.As(se.Origin, &inner) {
				se = inner
				continue
			}
			break
		}
		if p := se.JSONPointer(); p != nil {
			v.Ptr = p
		}
		v.Field = se.SchemaField
	}
	return v
}

func c12Check(args []string) int {
	in := bufio.NewScanner(os.Stdin)
	in.Buffer(make([]byte, 1<<20), 1<<28)
	out := bufio.NewWriter(os.Stdout)
	defer out.Flush()
	enc := json.NewEncoder(out)
	enc.SetEscapeHTML(false)
	for in.Scan() {
		if len(bytes.TrimSpace(in.Bytes())) == 0 {
			continue
		}
		var job c12CheckJob
		if err := json.Unmarshal(in.Bytes(), &job); err != nil {
			fmt.Fprintln(os.Stderr, "c12-check: bad job:", err)
			return 2
		}
		_ = enc.Encode(c12CheckOne(job))
	}
	return 0
}
