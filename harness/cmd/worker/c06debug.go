package main

import (
	"encoding/json"
	"fmt"
	"io"
	"os"

	"github.com/grafana/cog/verifapi"
)

func init() {
	commands["c06-debug"] = func(args []string) int {
		// stdin: {"schemas": [...]} ; args[0]: language. Prints the object list after every pass.
		raw, _ := io.ReadAll(os.Stdin)
		var c J
		if err := json.Unmarshal(raw, &c); err != nil {
			fmt.Fprintln(os.Stderr, err)
			return 2
		}
		schemas, err := unprojSchemas(c["schemas"])
		if err != nil {
			fmt.Fprintln(os.Stderr, err)
			return 2
		}
		lang := allLanguages()[args[0]]()
		for _, p := range lang.CompilerPasses() {
			schemas, err = verifapi.Passes{p}.Process(schemas)
			fmt.Printf("== after %T (err=%v)\n", p, err)
			if err != nil {
				return 0
			}
			for _, s := range schemas {
				s.Objects.Iterate(func(_ string, o verifapi.Object) {
					raw, _ := json.Marshal(projType(o.Type))
					txt := string(raw)
					if len(txt) > 400 {
						txt = txt[:400]
					}
					fmt.Printf("   %s: %s\n", o.Name, txt)
				})
			}
		}
		return 0
	}
}
