package main

// C18: heap graphs of real Go values, by reflection (binding to spec/Heap.tla).
//
// One walker does three jobs over the same notion of cell and slot:
//   extract  the heap graph of a value (cells keyed by address: slice backing arrays, maps,
//            pointer targets; inline structs get the id of their container + label)
//   share    while extracting the copy after the original: a cell that already belongs to the
//            original is a shared cell (reported once, at the topmost shared cell)
//   mutate   perform one kind of mutation at EVERY site of the copy where it applies and log
//            each write as a Heap.tla mutation record (op, cell, label [, header cell, label])
//
// Values, cells and mutation records have exactly the JSON form Heap.tla/HeapTrace.tla read.

import (
	"fmt"
	"reflect"
	"sort"
	"strconv"
	"strings"
	"unsafe"
)

type gval struct {
	T string `json:"t"`
	C string `json:"c"`
	N int    `json:"n"`
	V string `json:"v"`
}

var gNil = gval{T: "nil"}

func (v gval) isRef() bool { return v.T == "slice" || v.T == "map" || v.T == "ptr" || v.T == "inl" }

type gcell struct {
	Kind  string          `json:"kind"`
	Cap   int             `json:"cap"`
	Slots map[string]gval `json:"slots"`
	owner int
	path  []pstep
}

// pstep: one labelled edge on the way from the root; any = the slot is an interface
type pstep struct {
	kind  string // field | index | key
	label string
	any   bool
}

func pathString(p []pstep) string {
	var b strings.Builder
	for _, s := range p {
		switch s.kind {
		case "field":
			b.WriteString("." + s.label)
		case "index":
			i, _ := strconv.Atoi(s.label)
			b.WriteString("[" + strconv.Itoa(i-1) + "]")
		default:
			b.WriteString("{" + s.label + "}")
		}
	}
	return b.String()
}

// pathNorm drops indices and keys: the witness class of a position
func pathNorm(p []pstep) string {
	var parts []string
	for _, s := range p {
		switch s.kind {
		case "field":
			parts = append(parts, s.label)
		case "index":
			parts = append(parts, "[]")
		default:
			parts = append(parts, "{}")
		}
	}
	return strings.Join(parts, ".")
}

type ckey struct {
	kind byte
	ptr  uintptr
	typ  reflect.Type
}

type sharedRec struct {
	cell     string
	kind     string
	a, b     int     // owners: the value that reached the cell first and the one that reached it again (0 original, 1 copy, 2 second copy)
	origPath []pstep // path in value a
	copyPath []pstep // path in value b
}

type mutRec struct {
	A  string `json:"a"`
	Op string `json:"op"`
	C  string `json:"c"`
	L  string `json:"l"`
	HC string `json:"hc"`
	HL string `json:"hl"`
}

type arrRange struct {
	lo, hi uintptr
	id     string
	owner  int
}

type walker struct {
	cells  map[string]*gcell
	ids    map[ckey]string
	owner  int
	shared []sharedRec
	ranges []arrRange
	err    error

	mut   string // mutation kind to perform at every site ("" = extract only)
	actor string // the value the mutation is performed through: o, k, k2
	seen  map[string]bool
	muts  []mutRec
}

func newWalker() *walker {
	return &walker{cells: map[string]*gcell{}, ids: map[ckey]string{}}
}

func (w *walker) fail(format string, a ...any) {
	if w.err == nil {
		w.err = fmt.Errorf(format, a...)
	}
}

func (w *walker) idFor(k ckey) (string, bool) {
	if id, ok := w.ids[k]; ok {
		return id, false
	}
	id := "c" + strconv.Itoa(len(w.ids)+1)
	w.ids[k] = id
	return id, true
}

// enter registers (extract) or revisits (mutate) a cell; descend reports whether its slots must be walked
func (w *walker) enter(id, kind string, capacity int, path []pstep) (cell *gcell, descend bool) {
	if w.mut != "" {
		if w.seen[id] {
			return &gcell{Slots: map[string]gval{}}, false
		}
		w.seen[id] = true
		return &gcell{Slots: map[string]gval{}}, true
	}
	if c, ok := w.cells[id]; ok {
		if c.owner != w.owner {
			w.shared = append(w.shared, sharedRec{cell: id, kind: c.Kind, a: c.owner, b: w.owner, origPath: c.path, copyPath: append([]pstep{}, path...)})
		}
		return c, false
	}
	c := &gcell{Kind: kind, Cap: capacity, Slots: map[string]gval{}, owner: w.owner, path: append([]pstep{}, path...)}
	w.cells[id] = c
	return c, true
}

// clean returns field i of struct v as a value that can be read and (if v is addressable) written,
// also when the field is unexported (orderedmap.Map)
func cleanField(v reflect.Value, i int) reflect.Value {
	f := v.Field(i)
	if f.CanInterface() {
		return f
	}
	if !f.CanAddr() {
		return f
	}
	return reflect.NewAt(f.Type(), unsafe.Pointer(f.UnsafeAddr())).Elem()
}

func addressable(v reflect.Value) reflect.Value {
	if v.CanAddr() {
		return v
	}
	a := reflect.New(v.Type()).Elem()
	a.Set(v)
	return a
}

func scalarString(v reflect.Value) string {
	switch v.Kind() {
	case reflect.String:
		return "string:" + v.String()
	case reflect.Bool:
		return "bool:" + strconv.FormatBool(v.Bool())
	case reflect.Int, reflect.Int8, reflect.Int16, reflect.Int32, reflect.Int64:
		return "int:" + strconv.FormatInt(v.Int(), 10)
	case reflect.Uint, reflect.Uint8, reflect.Uint16, reflect.Uint32, reflect.Uint64, reflect.Uintptr:
		return "uint:" + strconv.FormatUint(v.Uint(), 10)
	case reflect.Float32, reflect.Float64:
		return "float:" + strconv.FormatFloat(v.Float(), 'g', -1, 64)
	}
	return ""
}

func isScalarKind(k reflect.Kind) bool {
	switch k {
	case reflect.String, reflect.Bool, reflect.Int, reflect.Int8, reflect.Int16, reflect.Int32, reflect.Int64,
		reflect.Uint, reflect.Uint8, reflect.Uint16, reflect.Uint32, reflect.Uint64, reflect.Uintptr, reflect.Float32, reflect.Float64:
		return true
	}
	return false
}

// mutated returns a scalar of the same type that differs from v
func mutatedScalar(v reflect.Value, actor string) reflect.Value {
	n := reflect.New(v.Type()).Elem()
	switch v.Kind() {
	case reflect.String:
		n.SetString("MUT-" + actor + ":" + v.String())
	case reflect.Bool:
		n.SetBool(!v.Bool())
	case reflect.Int, reflect.Int8, reflect.Int16, reflect.Int32, reflect.Int64:
		n.SetInt(v.Int() + 1)
	case reflect.Uint, reflect.Uint8, reflect.Uint16, reflect.Uint32, reflect.Uint64, reflect.Uintptr:
		n.SetUint(v.Uint() + 1)
	case reflect.Float32, reflect.Float64:
		n.SetFloat(v.Float() + 1)
	}
	return n
}

// markValue fills a freshly created element (appended, inserted) so that it is recognisably the actor's
func markValue(v reflect.Value, actor string) {
	if !v.CanSet() {
		return
	}
	switch v.Kind() {
	case reflect.String:
		v.SetString("MUT-" + actor)
	case reflect.Bool:
		v.SetBool(true)
	case reflect.Int, reflect.Int8, reflect.Int16, reflect.Int32, reflect.Int64:
		v.SetInt(int64(70 + len(actor)))
	case reflect.Interface:
		if v.Type().NumMethod() == 0 {
			v.Set(reflect.ValueOf("MUT-" + actor))
		}
	case reflect.Struct:
		for i := 0; i < v.NumField(); i++ {
			markValue(v.Field(i), actor)
		}
	}
}

func store(v reflect.Value, set func(reflect.Value), nv reflect.Value) bool {
	if v.CanSet() {
		v.Set(nv)
		return true
	}
	if set != nil {
		set(nv)
		return true
	}
	return false
}

// walk visits value v stored in slot (hc, hl). set writes a new value into that slot when v itself is
// not settable (map entries, interface payloads). scalarOp is the mutation kind that a write to a scalar
// stored here amounts to. Returns the Heap.tla value.
func (w *walker) walk(v reflect.Value, set func(reflect.Value), hc, hl string, path []pstep, scalarOp string) gval {
	if w.err != nil {
		return gNil
	}
	switch v.Kind() {
	case reflect.Interface:
		if v.IsNil() {
			return gNil
		}
		if len(path) > 0 {
			path[len(path)-1].any = true
		}
		slot := v
		r := w.walk(v.Elem(), func(nv reflect.Value) {
			b := reflect.New(slot.Type()).Elem()
			b.Set(nv)
			store(slot, set, b)
		}, hc, hl, path, scalarOp)
		if r.T == "nil" || (r.T == "slice" && r.N == 0) || (r.T == "map" && w.mut == "" && len(w.cells[r.C].Slots) == 0) {
			r.V = "boxed" // a non-nil interface holding an empty value is not a nil interface (Heap.tla Empty)
		}
		return r
	case reflect.Ptr:
		if v.IsNil() {
			return gNil
		}
		id, _ := w.idFor(ckey{'p', v.Pointer(), v.Type().Elem()})
		cell, descend := w.enter(id, "obj", 0, path)
		if descend {
			e := v.Elem()
			if e.Kind() == reflect.Struct {
				w.structSlots(cell, e, id, path, "SetThroughPointer")
			} else {
				cell.Slots["*"] = w.walk(e, nil, id, "*", append(path, pstep{kind: "field", label: "*"}), "SetThroughPointer")
			}
		}
		return gval{T: "ptr", C: id}
	case reflect.Struct:
		id := hl
		if hc != "" {
			id = hc + "." + hl
		}
		cell, descend := w.enter(id, "inl", 0, path)
		if descend {
			a := v
			if w.mut != "" {
				a = addressable(v)
			}
			before := len(w.muts)
			w.structSlots(cell, a, id, path, scalarOp)
			if w.mut != "" && !v.CanAddr() && len(w.muts) > before {
				store(v, set, a) // write the modified struct back into its map entry / interface
			}
		}
		return gval{T: "inl", C: id}
	case reflect.Slice:
		if v.IsNil() {
			return gNil
		}
		if v.Cap() == 0 {
			return gval{T: "slice"} // no backing array at all: the same value as nil
		}
		et := v.Type().Elem()
		id, fresh := w.idFor(ckey{'a', v.Pointer(), et})
		if fresh && w.mut == "" {
			w.ranges = append(w.ranges, arrRange{v.Pointer(), v.Pointer() + uintptr(v.Cap())*et.Size(), id, w.owner})
		}
		n := v.Len()
		cell, descend := w.enter(id, "arr", v.Cap(), path)
		if descend || (w.mut == "" && len(cell.Slots) < n && cell.owner == w.owner) {
			for i := 0; i < n; i++ {
				l := strconv.Itoa(i + 1)
				if _, ok := cell.Slots[l]; ok && w.mut == "" {
					continue
				}
				cell.Slots[l] = w.walk(v.Index(i), nil, id, l, append(path, pstep{kind: "index", label: l}), "SetElem")
			}
			if w.mut == "SetElem" && n >= 2 {
				switch et.Kind() {
				case reflect.Ptr, reflect.Slice, reflect.Map:
					// element writes that keep everything reachable: exchange the first two elements
					a, b := reflect.New(et).Elem(), reflect.New(et).Elem()
					a.Set(v.Index(0))
					b.Set(v.Index(1))
					v.Index(0).Set(b)
					v.Index(1).Set(a)
					w.muts = append(w.muts, mutRec{A: w.actor, Op: "SetElem", C: id, L: "1"}, mutRec{A: w.actor, Op: "SetElem", C: id, L: "2"})
				}
			}
			if w.mut == "AppendWithinCap" && n < v.Cap() && !(et.Kind() == reflect.Ptr && n == 0) {
				elem := reflect.Zero(et)
				if et.Kind() == reflect.Ptr && n > 0 && !v.Index(0).IsNil() {
					// a nil element is not an IR value ([]*Schema): append a marked clone of the first element
					p := reflect.New(et.Elem())
					p.Elem().Set(v.Index(0).Elem())
					elem = p
				}
				nv := reflect.Append(v, elem) // stays within capacity: writes the (possibly shared) backing array
				if et.Kind() == reflect.Ptr {
					if !nv.Index(n).IsNil() {
						markValue(nv.Index(n).Elem(), w.actor)
					}
				} else {
					markValue(nv.Index(n), w.actor)
				}
				if store(v, set, nv) {
					w.muts = append(w.muts, mutRec{A: w.actor, Op: "AppendWithinCap", C: id, L: strconv.Itoa(n + 1), HC: hc, HL: hl})
				}
			}
		}
		return gval{T: "slice", C: id, N: n}
	case reflect.Map:
		if v.IsNil() {
			return gNil
		}
		id, _ := w.idFor(ckey{'m', v.Pointer(), v.Type()})
		cell, descend := w.enter(id, "map", 0, path)
		if descend {
			keys := v.MapKeys()
			sort.Slice(keys, func(i, j int) bool { return keyString(keys[i]) < keyString(keys[j]) })
			for _, k := range keys {
				k := k
				l := keyString(k)
				cell.Slots[l] = w.walk(v.MapIndex(k), func(nv reflect.Value) { v.SetMapIndex(k, nv) }, id, l,
					append(path, pstep{kind: "key", label: l}), "SetElem")
			}
			if w.mut == "MapInsert" && v.Type().Key().Kind() == reflect.String {
				k := reflect.New(v.Type().Key()).Elem()
				k.SetString("MUT-inserted")
				if !v.MapIndex(k).IsValid() {
					e := reflect.New(v.Type().Elem()).Elem()
					markValue(e, w.actor)
					v.SetMapIndex(k, e)
					w.muts = append(w.muts, mutRec{A: w.actor, Op: "MapInsert", C: id, L: "MUT-inserted"})
				}
			}
			if w.mut == "MapDelete" && len(keys) > 0 {
				v.SetMapIndex(keys[0], reflect.Value{})
				w.muts = append(w.muts, mutRec{A: w.actor, Op: "MapDelete", C: id, L: keyString(keys[0])})
			}
		}
		return gval{T: "map", C: id}
	default:
		if isScalarKind(v.Kind()) {
			if w.mut != "" && w.mut == scalarOp {
				if store(v, set, mutatedScalar(v, w.actor)) {
					w.muts = append(w.muts, mutRec{A: w.actor, Op: scalarOp, C: hc, L: hl})
				}
			}
			return gval{T: "s", V: scalarString(v)}
		}
		w.fail("unsupported kind %s (%s) at %s", v.Kind(), v.Type(), pathString(path))
		return gNil
	}
}

func keyString(k reflect.Value) string {
	if k.Kind() == reflect.String {
		return k.String()
	}
	return fmt.Sprint(k)
}

func (w *walker) structSlots(cell *gcell, v reflect.Value, id string, path []pstep, scalarOp string) {
	t := v.Type()
	for i := 0; i < t.NumField(); i++ {
		name := t.Field(i).Name
		cell.Slots[name] = w.walk(cleanField(v, i), nil, id, name, append(path, pstep{kind: "field", label: name}), scalarOp)
	}
}

// root walks a root value; name is "o" (original) or "k" (copy)
func (w *walker) root(v reflect.Value, name string) gval {
	w.owner = map[string]int{"o": 0, "k": 1, "k2": 2}[name]
	w.actor = name
	return w.walk(v, nil, "", name, nil, "SetField")
}

// overlaps: backing arrays of the copy that overlap an array of the original without being the same cell
func (w *walker) overlaps() []string {
	rs := append([]arrRange{}, w.ranges...)
	sort.Slice(rs, func(i, j int) bool { return rs[i].lo < rs[j].lo })
	var out []string
	for i := 0; i < len(rs); i++ {
		for j := i + 1; j < len(rs) && rs[j].lo < rs[i].hi; j++ {
			if rs[i].owner != rs[j].owner {
				out = append(out, rs[i].id+"/"+rs[j].id)
			}
		}
	}
	return out
}

// ------------------------------------------------------------------ Iso (Heap.tla IsoV)

type isoDiff struct {
	path  []pstep
	class string // Lost | Differs
	a, b  gval
}

func (w *walker) empty(v gval) bool {
	return v.T == "nil" || (v.T == "slice" && v.N == 0) || (v.T == "map" && len(w.cells[v.C].Slots) == 0)
}

func stepKind(cellKind string) string {
	switch cellKind {
	case "arr":
		return "index"
	case "map":
		return "key"
	}
	return "field"
}

func sortedLabels(m map[string]gval) []string {
	ls := make([]string, 0, len(m))
	for l := range m {
		ls = append(ls, l)
	}
	sort.Strings(ls)
	return ls
}

// iso compares a (original) and b (copy); differences are reported at the outermost differing slot
func (w *walker) iso(a, b gval, path []pstep, out *[]isoDiff) {
	add := func(class string) {
		*out = append(*out, isoDiff{path: append([]pstep{}, path...), class: class, a: a, b: b})
	}
	zero := func(v gval) bool {
		if v.T != "s" {
			return w.empty(v)
		}
		i := strings.Index(v.V, ":")
		switch v.V[i+1:] {
		case "", "0", "false":
			return true
		}
		return false
	}
	lostOrDiffers := func() {
		if zero(b) {
			add("Lost")
		} else {
			add("Differs")
		}
	}
	switch {
	case a.T == "s":
		if b.T != "s" || a.V != b.V {
			lostOrDiffers()
		}
	case w.empty(a):
		if !w.empty(b) {
			add("Differs")
		} else if a.V != b.V { // an interface holding an empty value vs a nil interface
			if a.V == "boxed" {
				add("Lost")
			} else {
				add("Differs")
			}
		}
	case a.T == "slice":
		if b.T != "slice" || a.N != b.N {
			lostOrDiffers()
			return
		}
		ca, cb := w.cells[a.C], w.cells[b.C]
		for i := 1; i <= a.N; i++ {
			l := strconv.Itoa(i)
			w.iso(ca.Slots[l], cb.Slots[l], append(path, pstep{kind: "index", label: l}), out)
		}
	default:
		if b.T != a.T {
			lostOrDiffers()
			return
		}
		ca, cb := w.cells[a.C], w.cells[b.C]
		for _, l := range sortedLabels(ca.Slots) {
			vb, ok := cb.Slots[l]
			if !ok {
				*out = append(*out, isoDiff{path: append(append([]pstep{}, path...), pstep{kind: stepKind(ca.Kind), label: l}), class: "Lost", a: ca.Slots[l], b: gNil})
				continue
			}
			w.iso(ca.Slots[l], vb, append(path, pstep{kind: stepKind(ca.Kind), label: l}), out)
		}
		for _, l := range sortedLabels(cb.Slots) {
			if _, ok := ca.Slots[l]; !ok {
				*out = append(*out, isoDiff{path: append(append([]pstep{}, path...), pstep{kind: stepKind(cb.Kind), label: l}), class: "Differs", a: gNil, b: cb.Slots[l]})
			}
		}
	}
}

// ------------------------------------------------------------------ snapshot (independent of the walker)

// flatten lists what an observer of v can see: one entry per scalar leaf, per length and per key set.
func flatten(v reflect.Value, path string, out map[string]string) {
	switch v.Kind() {
	case reflect.Interface, reflect.Ptr:
		if v.IsNil() {
			out[path] = "empty"
			return
		}
		flatten(v.Elem(), path, out)
	case reflect.Struct:
		for i := 0; i < v.NumField(); i++ {
			flatten(v.Field(i), path+"."+v.Type().Field(i).Name, out) // reading works on unexported fields too
		}
	case reflect.Slice:
		if v.Len() == 0 {
			out[path] = "empty"
			return
		}
		out[path+"#len"] = strconv.Itoa(v.Len())
		for i := 0; i < v.Len(); i++ {
			flatten(v.Index(i), path+"["+strconv.Itoa(i)+"]", out)
		}
	case reflect.Map:
		if v.Len() == 0 {
			out[path] = "empty"
			return
		}
		keys := v.MapKeys()
		ks := make([]string, 0, len(keys))
		for _, k := range keys {
			ks = append(ks, keyString(k))
			flatten(v.MapIndex(k), path+"{"+keyString(k)+"}", out)
		}
		sort.Strings(ks)
		out[path+"#keys"] = strings.Join(ks, ",")
	default:
		out[path] = scalarString(v)
	}
}

func flatDiff(a, b map[string]string) []string {
	var out []string
	for k, va := range a {
		if vb, ok := b[k]; !ok || vb != va {
			out = append(out, k)
		}
	}
	for k := range b {
		if _, ok := a[k]; !ok {
			out = append(out, k)
		}
	}
	sort.Strings(out)
	return out
}
