package main

// C10 diagnostic (DESIGN 6 "C10": "IR Default dynamic types logged"). Sub-command, ndjson in / out:
//
//   c10-irdefaults   one job per line {"id","yaml"}: load the schemas the pipeline YAML describes with the REAL
//                    parsers (Pipeline.LoadSchemas: parse + consolidate + common passes) and report, for every type
//                    node carrying a Default or a constant Value, the dynamic Go type of that value:
//                    {"id","err","defaults":[{"object","path","kind","what":"default"|"constant","gotype","value"}]}
//                    gotype is fmt's %T, spelled structurally for containers: []any{string,string},
//                    map[string]any{name:string}. It is what tells json.Number (JSON Schema) from float64
//                    (OpenAPI) from int64 (CUE) for one and the same declared default `3`.
//
// Nothing here decides a verdict: the records are evidence attached to C10's failures.

import (
	"bufio"
	"bytes"
	"context"
	"encoding/json"
	"fmt"
	"os"
	"sort"
	"strings"

	"github.com/grafana/cog/verifapi"
)

func init() {
	commands["c10-irdefaults"] = c10IRDefaults
}

type c10Job struct {
	ID   string `json:"id"`
	YAML string `json:"yaml"`
}

type c10Default struct {
	Object string `json:"object"`
	Path   string `json:"path"`
	Kind   string `json:"kind"`
	What   string `json:"what"`
	GoType string `json:"gotype"`
	Value  string `json:"value"`
}

type c10Result struct {
	ID       string       `json:"id"`
	Err      string       `json:"err,omitempty"`
	Defaults []c10Default `json:"defaults"`
}

// dynType spells the dynamic type of a default, descending into containers.
func dynType(v any) string {
	switch x := v.(type) {
	case nil:
		return "nil"
	case []any:
		parts := make([]string, len(x))
		for i, e := range x {
			parts[i] = dynType(e)
		}
		return "[]any{" + strings.Join(parts, ",") + "}"
	case map[string]any:
		keys := make([]string, 0, len(x))
		for k := range x {
			keys = append(keys, k)
		}
		sort.Strings(keys)
		parts := make([]string, len(keys))
		for i, k := range keys {
			parts[i] = k + ":" + dynType(x[k])
		}
		return "map[string]any{" + strings.Join(parts, ",") + "}"
	default:
		return fmt.Sprintf("%T", v)
	}
}

func c10Walk(object string, path string, t verifapi.Type, out *[]c10Default, depth int) {
	if depth > 8 {
		return
	}
	if t.Default != nil {
		*out = append(*out, c10Default{Object: object, Path: path, Kind: string(t.Kind), What: "default",
			GoType: dynType(t.Default), Value: fmt.Sprintf("%#v", t.Default)})
	}
	switch {
	case t.Scalar != nil:
		if t.Scalar.Value != nil {
			*out = append(*out, c10Default{Object: object, Path: path, Kind: string(t.Kind), What: "constant",
				GoType: dynType(t.Scalar.Value), Value: fmt.Sprintf("%#v", t.Scalar.Value)})
		}
	case t.Struct != nil:
		for _, f := range t.Struct.Fields {
			p := f.Name
			if path != "" {
				p = path + "." + f.Name
			}
			c10Walk(object, p, f.Type, out, depth+1)
		}
	case t.Array != nil:
		c10Walk(object, path+"[]", t.Array.ValueType, out, depth+1)
	case t.Map != nil:
		c10Walk(object, path+"{}", t.Map.ValueType, out, depth+1)
	case t.Disjunction != nil:
		for i, b := range t.Disjunction.Branches {
			c10Walk(object, fmt.Sprintf("%s|%d", path, i), b, out, depth+1)
		}
	}
}

func c10One(job c10Job) (res c10Result) {
	res.ID = job.ID
	res.Defaults = []c10Default{}
	defer func() {
		if r := recover(); r != nil {
			res.Err = fmt.Sprintf("panic: %v", r)
		}
	}()
	pipeline, err := verifapi.PipelineFromFile(job.YAML, verifapi.PipelineParameters(map[string]string{}))
	if err != nil {
		res.Err = "config: " + err.Error()
		return res
	}
	schemas, err := pipeline.LoadSchemas(context.Background())
	if err != nil {
		res.Err = err.Error()
		return res
	}
	for _, schema := range schemas {
		schema.Objects.Iterate(func(name string, object verifapi.Object) {
			c10Walk(name, "", object.Type, &res.Defaults, 0)
		})
	}
	return res
}

func c10IRDefaults(args []string) int {
	in := bufio.NewScanner(os.Stdin)
	in.Buffer(make([]byte, 1<<20), 1<<26)
	out := bufio.NewWriter(os.Stdout)
	defer out.Flush()
	enc := json.NewEncoder(out)
	for in.Scan() {
		if len(bytes.TrimSpace(in.Bytes())) == 0 {
			continue
		}
		var job c10Job
		if err := json.Unmarshal(in.Bytes(), &job); err != nil {
			fmt.Fprintln(os.Stderr, "c10-irdefaults: bad job:", err)
			return 2
		}
		_ = enc.Encode(c10One(job))
	}
	return 0
}
