package main

// Input gating / parameters (growth of Pipeline.tla, DESIGN Appendix E.4): one job = one real pipeline file with
// gated, parametrised, filtered and transformed inputs. The real pipeline.LoadSchemas() is projected to what
// PipelineInputs.tla predicts (error class; packages -> object names, metadata identifier, whether the common pass
// ran) and, when the job carries the literal expansion of the pipeline (no `if`, no parameters: skipped inputs
// removed, every value substituted as the spec expects), the two IRs are compared in full.

import (
	"bufio"
	"bytes"
	"context"
	"encoding/json"
	"fmt"
	"os"
	"regexp"
	"sort"
	"strings"

	"github.com/grafana/cog/verifapi"
)

func init() {
	commands["inputs-load"] = inputsLoad
}

type inputsJob struct {
	ID      string            `json:"id"`
	Yaml    string            `json:"yaml"`
	Params  map[string]string `json:"params"`  // CLI --parameters
	Literal string            `json:"literal"` // literal expansion ("" when the spec expects an error)
	Marker  string            `json:"marker"`  // comment appended by the common pass
}

var exprPos = regexp.MustCompile(`\(\d+:\d+\)`)

func inputsErrClass(msg string) string {
	switch {
	case msg == "":
		return "none"
	case strings.HasPrefix(msg, "panic:"):
		return "panic"
	case strings.Contains(msg, "expected expression to evaluate to a boolean"):
		return "nonbool"
	case strings.Contains(msg, "can not merge schemas"):
		return "conflict"
	case exprPos.MatchString(msg):
		return "compile"
	case strings.HasPrefix(msg, "config:"):
		return "config"
	}
	return "other"
}

func inputsLoadOne(yaml string, params map[string]string, marker string) J {
	res := J{}
	var errMsg string
	var schemas verifapi.Schemas
	func() {
		defer func() {
			if r := recover(); r != nil {
				errMsg = fmt.Sprintf("panic: %v", r)
			}
		}()
		if params == nil {
			params = map[string]string{}
		}
		p, err := verifapi.PipelineFromFile(yaml, verifapi.PipelineParameters(params))
		if err != nil {
			errMsg = "config: " + err.Error()
			return
		}
		s, err := p.LoadSchemas(context.Background())
		if err != nil {
			errMsg = err.Error()
			return
		}
		schemas = s
	}()
	res["err"] = errMsg
	res["class"] = inputsErrClass(errMsg)
	pkgs := []any{}
	order := []string{}
	for _, s := range schemas {
		names := []string{}
		commented := s.Objects.Len() > 0
		s.Objects.Iterate(func(name string, o verifapi.Object) {
			names = append(names, name)
			has := false
			for _, c := range o.Comments {
				if c == marker {
					has = true
				}
			}
			commented = commented && has
		})
		sort.Strings(names)
		order = append(order, s.Package)
		pkgs = append(pkgs, J{"pkg": s.Package, "objects": names, "meta": string(s.Metadata.Kind) + "/" + string(s.Metadata.Variant) + "/" + s.Metadata.Identifier,
			"commented": commented, "entry": s.EntryPoint})
	}
	res["pkgs"] = pkgs
	res["order"] = order
	if errMsg == "" {
		b, _ := json.Marshal(schemas)
		res["hash"] = sha(b)
		res["json"] = string(b)
	}
	return res
}

func inputsLoad(args []string) int {
	in := bufio.NewScanner(os.Stdin)
	in.Buffer(make([]byte, 1<<20), 1<<28)
	out := bufio.NewWriter(os.Stdout)
	defer out.Flush()
	for in.Scan() {
		if len(bytes.TrimSpace(in.Bytes())) == 0 {
			continue
		}
		var job inputsJob
		if err := json.Unmarshal(in.Bytes(), &job); err != nil {
			fmt.Fprintln(os.Stderr, "bad job:", err)
			return 2
		}
		watchdog(func() {
			verifapi.SchedReset()
			real := inputsLoadOne(job.Yaml, job.Params, job.Marker)
			rec := J{"id": job.ID, "real": real}
			if job.Literal != "" {
				lit := inputsLoadOne(job.Literal, nil, job.Marker)
				rec["literal"] = J{"err": lit["err"], "class": lit["class"], "hash": lit["hash"]}
				rec["expansion_equal"] = real["err"] == "" && lit["err"] == "" && real["json"] == lit["json"]
				if rec["expansion_equal"] == false && real["err"] == "" && lit["err"] == "" {
					rec["first_difference"] = pipeFirstDiff([]byte(real["json"].(string)), []byte(lit["json"].(string)))
				}
			}
			delete(real, "json")
			b, _ := json.Marshal(rec)
			out.Write(b)
			out.WriteByte('\n')
		}, func() {
			b, _ := json.Marshal(J{"id": job.ID, "timeout": true, "real": J{"err": "timeout", "class": "timeout", "pkgs": []any{}, "order": []string{}}})
			out.Write(b)
			out.WriteByte('\n')
			out.Flush()
		})
	}
	return 0
}
