package main

// C04, Go side: one whole real pipeline run per job, under recover() and a watchdog.
//
//   c04-run [-maxstack MB]   jobs on stdin {"id","yaml","timeout_ms"}; for every job the worker first prints
//            {"begin":id} (flushed), then runs codegen.PipelineFromFile(yaml) + Pipeline.Run in a goroutine and
//            prints one record {"id","outcome","err","panic","stack":[frames],"ms","files"}:
//              outcome = "files"   Run returned a file set
//                        "error"   PipelineFromFile or Run returned an error
//                        "panic"   a panic was recovered; "panic" = its text, "stack" = the goroutine's frames
//                                  from the panicking function upwards (function names only)
//                        "timeout" the run consumed timeout_ms of CPU time (or 15 x timeout_ms of wall time, for a run that is
//                                  blocked) without returning; "stack" = frames of the job's
//                                  goroutine at that moment. The goroutine cannot be stopped, so the worker
//                                  exits with status 3 right after printing the record.
//            A stack overflow or another fatal runtime error kills the process (status 2, goroutine dump on
//            stderr): the harness attributes it to the job whose "begin" has no record and restarts the worker
//            on the remaining jobs. The maximum stack is lowered (default 64 MB) so that runaway recursion
//            dies in a second instead of after a gigabyte.
//
// Nothing is written to disk: the property speaks about what Run returns.

import (
	"bufio"
	"bytes"
	"context"
	"encoding/json"
	"flag"
	"fmt"
	"os"
	"runtime"
	"runtime/debug"
	"strings"
	"syscall"
	"time"

	"github.com/grafana/cog/verifapi"
)

func init() {
	commands["c04-run"] = c04Run
}

type c04Job struct {
	ID        string `json:"id"`
	YAML      string `json:"yaml"`
	TimeoutMs int    `json:"timeout_ms"`
}

type c04Result struct {
	ID      string   `json:"id"`
	Outcome string   `json:"outcome"`
	Err     string   `json:"err,omitempty"`
	Panic   string   `json:"panic,omitempty"`
	Stack   []string `json:"stack,omitempty"`
	Ms      float64  `json:"ms"`
	CPUMs   float64  `json:"cpu_ms"`
	Files   int      `json:"files"`
}

// processCPU is the user + system CPU time this process has consumed.
func processCPU() time.Duration {
	var ru syscall.Rusage
	if err := syscall.Getrusage(syscall.RUSAGE_SELF, &ru); err != nil {
		return 0
	}
	return time.Duration(ru.Utime.Nano() + ru.Stime.Nano())
}

// framesOf keeps the function names of one goroutine dump, top of stack first.
func framesOf(stack string, n int) []string {
	var out []string
	for _, l := range strings.Split(stack, "\n") {
		if l == "" || strings.HasPrefix(l, "\t") || strings.HasPrefix(l, "goroutine ") || strings.HasPrefix(l, "created by ") {
			continue
		}
		if i := strings.LastIndex(l, "("); i > 0 {
			l = l[:i]
		}
		out = append(out, l)
		if len(out) >= n {
			break
		}
	}
	return out
}

func c04RunJob(job c04Job) (res c04Result) {
	res.ID = job.ID
	defer func() {
		if r := recover(); r != nil {
			res.Outcome = "panic"
			res.Panic = fmt.Sprintf("%v", r)
			// frames above the deferred function: runtime.gopanic and what called it
			fr := framesOf(string(debug.Stack()), 200)
			for i, f := range fr {
				if strings.HasPrefix(f, "panic") || strings.HasPrefix(f, "runtime.gopanic") {
					fr = fr[i+1:]
					break
				}
			}
			if len(fr) > 40 {
				fr = fr[:40]
			}
			res.Stack = fr
		}
	}()
	pipeline, err := verifapi.PipelineFromFile(job.YAML, verifapi.PipelineParameters(map[string]string{}))
	if err != nil {
		res.Outcome, res.Err = "error", "config: "+err.Error()
		return res
	}
	fs, err := pipeline.Run(context.Background())
	if err != nil {
		res.Outcome, res.Err = "error", err.Error()
		return res
	}
	res.Outcome = "files"
	if fs != nil {
		res.Files = fs.Len()
	}
	return res
}

func c04Run(args []string) int {
	fl := flag.NewFlagSet("c04-run", flag.ExitOnError)
	maxStack := fl.Int("maxstack", 64, "maximum goroutine stack in MB")
	_ = fl.Parse(args)
	debug.SetMaxStack(*maxStack << 20)
	in := bufio.NewScanner(os.Stdin)
	in.Buffer(make([]byte, 1<<20), 1<<26)
	out := bufio.NewWriter(os.Stdout)
	enc := json.NewEncoder(out)
	for in.Scan() {
		if len(bytes.TrimSpace(in.Bytes())) == 0 {
			continue
		}
		var job c04Job
		if err := json.Unmarshal(in.Bytes(), &job); err != nil {
			fmt.Fprintln(os.Stderr, "c04-run: bad job:", err)
			return 4
		}
		if job.TimeoutMs <= 0 {
			job.TimeoutMs = 20000
		}
		_ = enc.Encode(map[string]string{"begin": job.ID})
		_ = out.Flush()
		done := make(chan c04Result, 1)
		t0 := time.Now()
		go func() { done <- c04RunJob(job) }()
		// The budget is CPU time of this process (one job runs at a time), not wall time: a verdict must not depend on how many
		// other processes compete for the cores. The wall clock only bounds a run that is blocked without burning CPU.
		cpu0 := processCPU()
		tick := time.NewTicker(100 * time.Millisecond)
		timedOut := false
	wait:
		for {
			select {
			case res := <-done:
				res.Ms = float64(time.Since(t0).Microseconds()) / 1000
				res.CPUMs = float64((processCPU() - cpu0).Microseconds()) / 1000
				if len(res.Err) > 600 {
					res.Err = res.Err[:600]
				}
				_ = enc.Encode(res)
				break wait
			case <-tick.C:
				budget := time.Duration(job.TimeoutMs) * time.Millisecond
				if processCPU()-cpu0 >= budget || time.Since(t0) >= 15*budget {
					timedOut = true
					break wait
				}
			}
		}
		tick.Stop()
		if timedOut {
			buf := make([]byte, 1<<22)
			buf = buf[:runtime.Stack(buf, true)]
			res := c04Result{ID: job.ID, Outcome: "timeout", Ms: float64(time.Since(t0).Microseconds()) / 1000,
				CPUMs: float64((processCPU() - cpu0).Microseconds()) / 1000}
			for _, g := range strings.Split(string(buf), "\n\n") {
				if strings.Contains(g, "main.c04RunJob") {
					fr := framesOf(g, 200)
					res.Stack = fr
					break
				}
			}
			_ = enc.Encode(res)
			_ = out.Flush()
			return 3
		}
	}
	_ = out.Flush()
	return 0
}
