package main

// Builder/option rule instances of spec/Builders.tla turned into the real
// rules of internal/veneers, directly and as YAML veneer files.
//
// Rule      {"kind":"b"|"o", "lang":"all"|<language>, "r":name, "sel":Selector, ...parameters}
// builder selectors   {"k":"by_object"|"by_name","pkg","name"} | {"k":"by_variant","pkg","variant"}
//                     | {"k":"from_disjunction","pkg"} | {"k":"every","pkg"}
// option selectors    {"k":"by_name","pkg","object","options":[s]} | {"k":"by_builder","pkg","builder","options":[s]}
//                     | {"k":"every","pkg"}
// paths are sequences of identifiers (TLA+ has no string splitting); they are joined with "." here.

import (
	"encoding/json"
	"fmt"
	"strings"

	"github.com/grafana/cog/verifapi"
)

func joinPath(v any) string { return strings.Join(jstrings(v), ".") }

func jint(v any) int {
	switch x := v.(type) {
	case float64:
		return int(x)
	case int:
		return x
	case json.Number:
		n, _ := x.Int64()
		return int(n)
	}
	return 0
}

func builderSelector(sel J) (verifapi.BuilderSelector, error) {
	switch jstr(sel["k"]) {
	case "by_object":
		return verifapi.BuilderByObjectName(jstr(sel["pkg"]), jstr(sel["name"])), nil
	case "by_name":
		return verifapi.BuilderByName(jstr(sel["pkg"]), jstr(sel["name"])), nil
	case "by_variant":
		return verifapi.BuilderByVariant(verifapi.SchemaVariant(jstr(sel["variant"]))), nil
	case "from_disjunction":
		return verifapi.BuilderStructGeneratedFromDisjunction(), nil
	case "every":
		return verifapi.BuilderEveryBuilder(), nil
	}
	return nil, fmt.Errorf("unknown builder selector %q", jstr(sel["k"]))
}

func optionSelector(sel J) (verifapi.OptionSelector, error) {
	switch jstr(sel["k"]) {
	case "by_name":
		return verifapi.OptionByName(jstr(sel["pkg"]), jstr(sel["object"]), jstrings(sel["options"])...), nil
	case "by_builder":
		return verifapi.OptionByBuilder(jstr(sel["pkg"]), jstr(sel["builder"]), jstrings(sel["options"])...), nil
	case "every":
		return verifapi.OptionEveryOption(), nil
	}
	return nil, fmt.Errorf("unknown option selector %q", jstr(sel["k"]))
}

func veneerValue(j J) (verifapi.VeneerAssignmentValue, error) {
	switch jstr(j["k"]) {
	case "arg":
		a, err := unprojArg(jmap(j["arg"]))
		return verifapi.VeneerAssignmentValue{Argument: &a}, err
	case "const":
		c, err := unprojVal(jmap(j["val"]))
		return verifapi.VeneerAssignmentValue{Constant: c}, err
	case "envelope":
		env := &verifapi.VeneerAssignmentEnvelope{}
		for _, x := range jlist(j["values"]) {
			v, err := veneerValue(jmap(jmap(x)["value"]))
			if err != nil {
				return verifapi.VeneerAssignmentValue{}, err
			}
			env.Values = append(env.Values, verifapi.VeneerEnvelopeFieldValue{Field: jstr(jmap(x)["field"]), Value: v})
		}
		return verifapi.VeneerAssignmentValue{Envelope: env}, nil
	}
	return verifapi.VeneerAssignmentValue{}, fmt.Errorf("unknown veneer value kind %q", jstr(j["k"]))
}

func veneerAssignment(j J) (verifapi.VeneerAssignment, error) {
	v, err := veneerValue(jmap(j["value"]))
	return verifapi.VeneerAssignment{Path: joinPath(j["path"]), Method: verifapi.AssignmentMethod(jstr(j["method"])), Value: v}, err
}

func veneerOption(j J) (verifapi.VeneerOption, error) {
	args, err := unprojArgs(j["args"])
	if err != nil {
		return verifapi.VeneerOption{}, err
	}
	o := verifapi.VeneerOption{Name: jstr(j["name"]), Comments: jstrings(j["comments"]), Arguments: args}
	for _, a := range jlist(j["assigns"]) {
		va, err := veneerAssignment(jmap(a))
		if err != nil {
			return o, err
		}
		o.Assignments = append(o.Assignments, va)
	}
	return o, nil
}

func pairsToMap(v any, k, val string) map[string]string {
	out := map[string]string{}
	for _, x := range jlist(v) {
		out[jstr(jmap(x)[k])] = jstr(jmap(x)[val])
	}
	return out
}

func pathPairsToMap(v any) map[string]string {
	out := map[string]string{}
	for _, x := range jlist(v) {
		out[jstr(jmap(x)["key"])] = joinPath(jmap(x)["path"])
	}
	return out
}

// directRule builds the real rule. Exactly one of the two results is set.
func directRule(r J) (verifapi.BuilderRule, *verifapi.OptionRule, error) {
	sel := jmap(r["sel"])
	name := jstr(r["r"])
	if jstr(r["kind"]) == "b" {
		s, err := builderSelector(sel)
		if err != nil {
			return nil, nil, err
		}
		switch name {
		case "omit":
			return verifapi.BuilderOmit(s), nil, nil
		case "rename":
			return verifapi.BuilderRename(s, jstr(r["as"])), nil, nil
		case "merge_into":
			var rn map[string]string
			if len(jlist(r["rename"])) > 0 {
				rn = pairsToMap(r["rename"], "from", "to")
			}
			return verifapi.BuilderMergeInto(s, jstr(r["source"]), joinPath(r["under"]), jstrings(r["exclude"]), rn), nil, nil
		case "compose":
			return verifapi.BuilderComposeBuilders(s, verifapi.CompositionConfig{
				SourceBuilderName:        jstr(r["srcpkg"]) + "." + jstr(r["srcname"]),
				PluginDiscriminatorField: jstr(r["discr"]),
				ExcludeOptions:           jstrings(r["exclude"]),
				CompositionMap:           pathPairsToMap(r["map"]),
				ComposedBuilderName:      jstr(r["name"]),
				PreserveOriginalBuilders: jbool(r["preserve"]),
			}), nil, nil
		case "properties":
			fs, err := unprojFields(r["set"])
			return verifapi.BuilderProperties(s, fs), nil, err
		case "duplicate":
			return verifapi.BuilderDuplicate(s, jstr(r["as"]), jstrings(r["exclude"])), nil, nil
		case "initialize":
			var inits []verifapi.Initialization
			for _, x := range jlist(r["set"]) {
				v, err := unprojVal(jmap(jmap(x)["value"]))
				if err != nil {
					return nil, nil, err
				}
				inits = append(inits, verifapi.Initialization{PropertyPath: joinPath(jmap(x)["path"]), Value: v})
			}
			return verifapi.BuilderInitialize(s, inits), nil, nil
		case "promote":
			return verifapi.BuilderPromoteOptionsToConstructor(s, jstrings(r["options"])), nil, nil
		case "add_option":
			o, err := veneerOption(jmap(r["option"]))
			return verifapi.BuilderAddOption(s, o), nil, err
		case "add_factory":
			f, err := unprojFactory(jmap(r["factory"]))
			return verifapi.BuilderAddFactory(s, f), nil, err
		}
		return nil, nil, fmt.Errorf("unknown builder rule %q", name)
	}
	s, err := optionSelector(sel)
	if err != nil {
		return nil, nil, err
	}
	var or verifapi.OptionRule
	switch name {
	case "omit":
		or = verifapi.OptionOmit(s)
	case "rename":
		or = verifapi.OptionRename(s, jstr(r["as"]))
	case "rename_arguments":
		or = verifapi.OptionRenameArguments(s, jstrings(r["as"]))
	case "array_to_append":
		or = verifapi.OptionArrayToAppend(s)
	case "map_to_index":
		or = verifapi.OptionMapToIndex(s)
	case "unfold_boolean":
		or = verifapi.OptionUnfoldBoolean(s, verifapi.BooleanUnfold{OptionTrue: jstr(r["true_as"]), OptionFalse: jstr(r["false_as"])})
	case "struct_fields_as_arguments":
		or = verifapi.OptionStructFieldsAsArguments(s, jstrings(r["fields"])...)
	case "struct_fields_as_options":
		or = verifapi.OptionStructFieldsAsOptions(s, jstrings(r["fields"])...)
	case "disjunction_as_options":
		or = verifapi.OptionDisjunctionAsOptions(s, jint(r["index"]))
	case "duplicate":
		or = verifapi.OptionDuplicate(s, jstr(r["as"]))
	case "add_assignment":
		a, err := veneerAssignment(jmap(r["assign"]))
		if err != nil {
			return nil, nil, err
		}
		or = verifapi.OptionAddAssignment(s, a)
	case "add_comments":
		or = verifapi.OptionAddComments(s, jstrings(r["comments"]))
	default:
		return nil, nil, fmt.Errorf("unknown option rule %q", name)
	}
	return nil, &or, nil
}

// ------------------------------------------------------------------- YAML

func yq(s string) string { b, _ := json.Marshal(s); return string(b) }

func yqlist(l []string) string {
	parts := make([]string, 0, len(l))
	for _, s := range l {
		parts = append(parts, yq(s))
	}
	return "[" + strings.Join(parts, ", ") + "]"
}

// yamlValue renders a V record as a YAML (JSON-flow) scalar.
func yamlValue(v J) string {
	switch jstr(v["t"]) {
	case "string":
		return yq(jstr(v["s"]))
	case "nil", "":
		return "null"
	}
	return jstr(v["s"]) // bool, numbers, lists and maps are already JSON text
}

// yamlType renders a projected type in the spelling yaml.v3 expects for ast.Type
// (lower-cased field names unless a yaml tag says otherwise).
func yamlType(t J) (string, bool) {
	parts := []string{}
	add := func(k, v string) { parts = append(parts, yq(k)+": "+v) }
	if jbool(t["nullable"]) {
		add("nullable", "true")
	}
	if d := jmap(t["def"]); d != nil && jstr(d["t"]) != "nil" {
		add("default", yamlValue(d))
	}
	if len(jlist(t["hints"])) > 0 {
		return "", false
	}
	switch jstr(t["k"]) {
	case "scalar":
		add("kind", yq("scalar"))
		sc := []string{yq("scalar_kind") + ": " + yq(jstr(t["sk"]))}
		if v := jmap(t["val"]); v != nil && jstr(v["t"]) != "nil" {
			sc = append(sc, yq("value")+": "+yamlValue(v))
		}
		if len(jlist(t["cons"])) > 0 {
			cs := []string{}
			for _, c := range jlist(t["cons"]) {
				args := []string{}
				for _, a := range jlist(jmap(c)["args"]) {
					args = append(args, yamlValue(jmap(a)))
				}
				cs = append(cs, "{"+yq("op")+": "+yq(jstr(jmap(c)["op"]))+", "+yq("args")+": ["+strings.Join(args, ", ")+"]}")
			}
			sc = append(sc, yq("constraints")+": ["+strings.Join(cs, ", ")+"]")
		}
		add("scalar", "{"+strings.Join(sc, ", ")+"}")
	case "ref":
		add("kind", yq("ref"))
		add("ref", "{"+yq("referred_pkg")+": "+yq(jstr(t["pkg"]))+", "+yq("referred_type")+": "+yq(jstr(t["name"]))+"}")
	case "array":
		e, ok := yamlType(jmap(t["elem"]))
		if !ok {
			return "", false
		}
		add("kind", yq("array"))
		add("array", "{"+yq("value_type")+": "+e+"}")
	default:
		return "", false
	}
	return "{" + strings.Join(parts, ", ") + "}", true
}

func yamlArg(a J) (string, bool) {
	t, ok := yamlType(jmap(a["type"]))
	return "{" + yq("name") + ": " + yq(jstr(a["name"])) + ", " + yq("type") + ": " + t + "}", ok
}

func yamlArgs(v any) (string, bool) {
	parts := []string{}
	for _, a := range jlist(v) {
		s, ok := yamlArg(jmap(a))
		if !ok {
			return "", false
		}
		parts = append(parts, s)
	}
	return "[" + strings.Join(parts, ", ") + "]", true
}

func yamlVeneerValue(j J) (string, bool) {
	switch jstr(j["k"]) {
	case "arg":
		a, ok := yamlArg(jmap(j["arg"]))
		return "{" + yq("argument") + ": " + a + "}", ok
	case "const":
		return "{" + yq("constant") + ": " + yamlValue(jmap(j["val"])) + "}", true
	case "envelope":
		vals := []string{}
		for _, x := range jlist(j["values"]) {
			v, ok := yamlVeneerValue(jmap(jmap(x)["value"]))
			if !ok {
				return "", false
			}
			vals = append(vals, "{"+yq("field")+": "+yq(jstr(jmap(x)["field"]))+", "+yq("value")+": "+v+"}")
		}
		return "{" + yq("envelope") + ": {" + yq("values") + ": [" + strings.Join(vals, ", ") + "]}}", true
	}
	return "", false
}

func yamlVeneerAssignment(j J) (string, bool) {
	v, ok := yamlVeneerValue(jmap(j["value"]))
	return "{" + yq("path") + ": " + yq(joinPath(j["path"])) + ", " + yq("method") + ": " + yq(jstr(j["method"])) + ", " + yq("value") + ": " + v + "}", ok
}

func yamlBuilderSelector(sel J) (string, bool) {
	switch jstr(sel["k"]) {
	case "by_object":
		return "by_object: " + yq(jstr(sel["name"])), true
	case "by_name":
		return "by_name: " + yq(jstr(sel["name"])), true
	case "by_variant":
		return "by_variant: " + yq(jstr(sel["variant"])), true
	case "from_disjunction":
		return "generated_from_disjunction: true", true
	}
	return "", false
}

func yamlOptionSelector(sel J) (string, bool) {
	opts := jstrings(sel["options"])
	switch jstr(sel["k"]) {
	case "by_name":
		if len(opts) == 1 && !strings.Contains(jstr(sel["object"]), ".") {
			return "by_name: " + yq(jstr(sel["object"])+"."+opts[0]), true
		}
		return "by_names: {object: " + yq(jstr(sel["object"])) + ", options: " + yqlist(opts) + "}", jstr(sel["object"]) != ""
	case "by_builder":
		if len(opts) == 1 && !strings.Contains(jstr(sel["builder"]), ".") {
			return "by_builder: " + yq(jstr(sel["builder"])+"."+opts[0]), true
		}
		return "by_names: {builder: " + yq(jstr(sel["builder"])) + ", options: " + yqlist(opts) + "}", jstr(sel["builder"]) != ""
	}
	return "", false
}

// yamlRule renders one rule as a complete veneers file (language, package, one rule).
func yamlRule(r J) (string, bool) {
	sel := jmap(r["sel"])
	head := fmt.Sprintf("language: %s\npackage: %s\n", yq(jstr(r["lang"])), yq(jstr(sel["pkg"])))
	name := jstr(r["r"])
	if jstr(r["kind"]) == "b" {
		s, ok := yamlBuilderSelector(sel)
		if !ok && name != "merge_into" {
			return "", false
		}
		body := ""
		switch name {
		case "omit":
			body = fmt.Sprintf("omit: {%s}", s)
		case "rename":
			body = fmt.Sprintf("rename: {%s, as: %s}", s, yq(jstr(r["as"])))
		case "merge_into":
			if jstr(sel["k"]) != "by_name" {
				return "", false
			}
			rn := []string{}
			for _, x := range jlist(r["rename"]) {
				rn = append(rn, yq(jstr(jmap(x)["from"]))+": "+yq(jstr(jmap(x)["to"])))
			}
			body = fmt.Sprintf("merge_into: {destination: %s, source: %s, under_path: %s, exclude_options: %s, rename_options: {%s}}",
				yq(jstr(sel["name"])), yq(jstr(r["source"])), yq(joinPath(r["under"])), yqlist(jstrings(r["exclude"])), strings.Join(rn, ", "))
		case "compose":
			cm := []string{}
			for _, x := range jlist(r["map"]) {
				cm = append(cm, yq(jstr(jmap(x)["key"]))+": "+yq(joinPath(jmap(x)["path"])))
			}
			body = fmt.Sprintf("compose: {%s, source_builder_name: %s, plugin_discriminator_field: %s, exclude_options: %s, composition_map: {%s}, composed_builder_name: %s, preserve_original_builders: %v}",
				s, yq(jstr(r["srcpkg"])+"."+jstr(r["srcname"])), yq(jstr(r["discr"])), yqlist(jstrings(r["exclude"])), strings.Join(cm, ", "), yq(jstr(r["name"])), jbool(r["preserve"]))
		case "properties":
			fs := []string{}
			for _, f := range jlist(r["set"]) {
				fm := jmap(f)
				t, ok := yamlType(jmap(fm["type"]))
				if !ok {
					return "", false
				}
				fs = append(fs, fmt.Sprintf("{name: %s, comments: %s, type: %s, required: %v}", yq(jstr(fm["name"])), yqlist(jstrings(fm["comments"])), t, jbool(fm["required"])))
			}
			body = fmt.Sprintf("properties: {%s, set: [%s]}", s, strings.Join(fs, ", "))
		case "duplicate":
			body = fmt.Sprintf("duplicate: {%s, as: %s, exclude_options: %s}", s, yq(jstr(r["as"])), yqlist(jstrings(r["exclude"])))
		case "initialize":
			set := []string{}
			for _, x := range jlist(r["set"]) {
				set = append(set, fmt.Sprintf("{property: %s, value: %s}", yq(joinPath(jmap(x)["path"])), yamlValue(jmap(jmap(x)["value"]))))
			}
			body = fmt.Sprintf("initialize: {%s, set: [%s]}", s, strings.Join(set, ", "))
		case "promote":
			body = fmt.Sprintf("promote_options_to_constructor: {%s, options: %s}", s, yqlist(jstrings(r["options"])))
		case "add_option":
			o := jmap(r["option"])
			args, ok := yamlArgs(o["args"])
			if !ok {
				return "", false
			}
			as := []string{}
			for _, a := range jlist(o["assigns"]) {
				x, ok := yamlVeneerAssignment(jmap(a))
				if !ok {
					return "", false
				}
				as = append(as, x)
			}
			body = fmt.Sprintf("add_option: {%s, option: {name: %s, comments: %s, arguments: %s, assignments: [%s]}}",
				s, yq(jstr(o["name"])), yqlist(jstrings(o["comments"])), args, strings.Join(as, ", "))
		case "add_factory":
			f := jmap(r["factory"])
			args, ok := yamlArgs(f["args"])
			if !ok {
				return "", false
			}
			calls := []string{}
			for _, c := range jlist(f["calls"]) {
				ps := []string{}
				for _, p := range jlist(jmap(c)["params"]) {
					pm := jmap(p)
					switch jstr(pm["k"]) {
					case "arg":
						a, ok := yamlArg(jmap(pm["arg"]))
						if !ok {
							return "", false
						}
						ps = append(ps, "{argument: "+a+"}")
					case "const":
						t, ok := yamlType(jmap(pm["type"]))
						if !ok {
							return "", false
						}
						ps = append(ps, "{constant: {type: "+t+", value: "+yamlValue(jmap(pm["val"]))+"}}")
					default:
						return "", false
					}
				}
				calls = append(calls, fmt.Sprintf("{name: %s, parameters: [%s]}", yq(jstr(jmap(c)["name"])), strings.Join(ps, ", ")))
			}
			body = fmt.Sprintf("add_factory: {%s, factory: {name: %s, comments: %s, arguments: %s, options: [%s]}}",
				s, yq(jstr(f["name"])), yqlist(jstrings(f["comments"])), args, strings.Join(calls, ", "))
		default:
			return "", false
		}
		return head + "builders:\n  - " + body + "\n", true
	}
	s, ok := yamlOptionSelector(sel)
	if !ok {
		return "", false
	}
	body := ""
	switch name {
	case "omit":
		body = fmt.Sprintf("omit: {%s}", s)
	case "rename":
		body = fmt.Sprintf("rename: {%s, as: %s}", s, yq(jstr(r["as"])))
	case "rename_arguments":
		body = fmt.Sprintf("rename_arguments: {%s, as: %s}", s, yqlist(jstrings(r["as"])))
	case "array_to_append":
		body = fmt.Sprintf("array_to_append: {%s}", s)
	case "map_to_index":
		body = fmt.Sprintf("map_to_index: {%s}", s)
	case "unfold_boolean":
		body = fmt.Sprintf("unfold_boolean: {%s, true_as: %s, false_as: %s}", s, yq(jstr(r["true_as"])), yq(jstr(r["false_as"])))
	case "struct_fields_as_arguments", "struct_fields_as_options":
		if fs := jstrings(r["fields"]); len(fs) > 0 {
			body = fmt.Sprintf("%s: {%s, fields: %s}", name, s, yqlist(fs))
		} else {
			body = fmt.Sprintf("%s: {%s}", name, s)
		}
	case "disjunction_as_options":
		body = fmt.Sprintf("disjunction_as_options: {%s, argument_index: %d}", s, jint(r["index"]))
	case "duplicate":
		body = fmt.Sprintf("duplicate: {%s, as: %s}", s, yq(jstr(r["as"])))
	case "add_assignment":
		a, ok := yamlVeneerAssignment(jmap(r["assign"]))
		if !ok {
			return "", false
		}
		body = fmt.Sprintf("add_assignment: {%s, assignment: %s}", s, a)
	case "add_comments":
		body = fmt.Sprintf("add_comments: {%s, comments: %s}", s, yqlist(jstrings(r["comments"])))
	default:
		return "", false
	}
	return head + "options:\n  - " + body + "\n", true
}
