package main

// C20 - configuration language.
//
//	c20-grammar            KLoader: the key grammar the three loaders decode into, by reflection over
//	                       codegen.Pipeline / yaml.Compiler / yaml.Veneers exactly as yaml.v3 reads struct tags
//	c20-run                every CASE TLC printed (spec/ConfigLang.tla) rendered to YAML and pushed through
//	                       the REAL loaders; one ndjson record per case (document, tree, loader verdict)
//	c20-real               the repository's own pipeline files and every single-injection variant of them
//
// The published-schema verdict is added by checks/c20.py (python jsonschema), the records are then
// validated by spec/ConfigLangTrace.tla.

import (
	"bufio"
	"bytes"
	"context"
	"encoding"
	"encoding/json"
	"flag"
	"fmt"
	"os"
	"path/filepath"
	"reflect"
	"regexp"
	"runtime"
	"sort"
	"strings"
	"sync"
	"syscall"

	"github.com/grafana/cog/verifapi"
	"gopkg.in/yaml.v3"
)

func init() {
	commands["c20-grammar"] = c20Grammar
	commands["c20-run"] = c20Run
	commands["c20-real"] = c20Real
	commands["c20-doc"] = c20Doc
}

// ---------------------------------------------------------------- grammar

type gKey struct {
	K string `json:"k"`
	C string `json:"c"`
	F string `json:"f"` // Go field name (loader grammar only)
}

type gNode struct {
	Kind   string   `json:"kind"` // map | free | list | scalar
	Open   bool     `json:"open"`
	Keys   []gKey   `json:"keys"`
	Elem   string   `json:"elem"`
	T      string   `json:"t"`
	GoType string   `json:"gotype"`
	Embeds []string `json:"embeds"`
	Custom bool     `json:"custom"`
	// the type whose UnmarshalYAML decodes this node (itself or an inlined struct)
	CustomBy string `json:"customby"`
}

type gFile struct {
	Root  string            `json:"root"`
	Nodes map[string]*gNode `json:"nodes"`
}

type grammar map[string]*gFile

func (n *gNode) child(k string) (string, bool) {
	for _, kk := range n.Keys {
		if kk.K == k {
			return kk.C, true
		}
	}
	return "", false
}

func (n *gNode) keyOfField(f string) string {
	for _, kk := range n.Keys {
		if kk.F == f {
			return kk.K
		}
	}
	return ""
}

func (n *gNode) fieldOfKey(k string) string {
	for _, kk := range n.Keys {
		if kk.K == k {
			return kk.F
		}
	}
	return ""
}

func (n *gNode) isA(t string) bool {
	if n.GoType == t {
		return true
	}
	for _, e := range n.Embeds {
		if e == t {
			return true
		}
	}
	return false
}

var (
	yamlUnmarshalerT = reflect.TypeOf((*yaml.Unmarshaler)(nil)).Elem()
	textUnmarshalerT = reflect.TypeOf((*encoding.TextUnmarshaler)(nil)).Elem()
)

type oldUnmarshaler interface {
	UnmarshalYAML(unmarshal func(interface{}) error) error
}

var oldUnmarshalerT = reflect.TypeOf((*oldUnmarshaler)(nil)).Elem()

func goTypeName(t reflect.Type) string {
	if t.Name() == "" {
		return ""
	}
	if t.PkgPath() == "" {
		return t.Name()
	}
	parts := strings.Split(t.PkgPath(), "/")
	return parts[len(parts)-1] + "." + t.Name()
}

type gExtractor struct {
	nodes map[string]*gNode
}

func newNode(kind string) *gNode {
	return &gNode{Kind: kind, Keys: []gKey{}, Embeds: []string{}}
}

func (x *gExtractor) put(id string, n *gNode) string {
	if _, ok := x.nodes[id]; !ok {
		x.nodes[id] = n
	}
	return id
}

func isCustom(t reflect.Type) bool {
	pt := reflect.PointerTo(t)
	return pt.Implements(yamlUnmarshalerT) || pt.Implements(oldUnmarshalerT) || t.Implements(yamlUnmarshalerT)
}

// customOrigin names the type that declares the UnmarshalYAML method t has (methods of embedded structs are promoted)
func customOrigin(t reflect.Type) string {
	if t.Kind() == reflect.Struct {
		for i := 0; i < t.NumField(); i++ {
			f := t.Field(i)
			ft := f.Type
			for ft.Kind() == reflect.Ptr {
				ft = ft.Elem()
			}
			if f.Anonymous && isCustom(ft) {
				return customOrigin(ft)
			}
		}
	}
	return goTypeName(t)
}

// visit mirrors what gopkg.in/yaml.v3 does with a destination of type t.
func (x *gExtractor) visit(t reflect.Type, where string) string {
	for t.Kind() == reflect.Ptr {
		t = t.Elem()
	}
	custom := isCustom(t)
	if t.Kind() != reflect.Struct && reflect.PointerTo(t).Implements(textUnmarshalerT) {
		return x.put("string", &gNode{Kind: "scalar", T: "string", Keys: []gKey{}, Embeds: []string{}})
	}
	switch t.Kind() {
	case reflect.Struct:
		id := goTypeName(t)
		if id == "" {
			id = where
		}
		if _, ok := x.nodes[id]; ok {
			return id
		}
		n := newNode("map")
		n.GoType = goTypeName(t)
		n.Custom = custom
		if custom {
			n.CustomBy = customOrigin(t)
		}
		x.nodes[id] = n
		x.fields(t, n, id)
		return id
	case reflect.Map:
		n := newNode("free")
		n.Custom = custom
		et := t.Elem()
		for et.Kind() == reflect.Ptr {
			et = et.Elem()
		}
		switch et.Kind() {
		case reflect.String:
			n.T = "dict:string"
		case reflect.Interface:
			n.T = "dict:any"
		case reflect.Bool:
			n.T = "dict:bool"
		case reflect.Int, reflect.Int8, reflect.Int16, reflect.Int32, reflect.Int64, reflect.Uint, reflect.Uint8, reflect.Uint16, reflect.Uint32, reflect.Uint64:
			n.T = "dict:int"
		default:
			n.T = "dict:structured:" + et.String()
		}
		return x.put(n.T, n)
	case reflect.Interface:
		n := newNode("free")
		n.T = "any"
		return x.put("any", n)
	case reflect.Slice, reflect.Array:
		if t.Elem().Kind() == reflect.Uint8 {
			n := newNode("scalar")
			n.T = "string"
			return x.put("string", n)
		}
		el := x.visit(t.Elem(), where+"[]")
		n := newNode("list")
		n.Elem = el
		n.Custom = custom
		return x.put("[]"+el, n)
	case reflect.String:
		n := newNode("scalar")
		n.T = "string"
		n.Custom = custom
		return x.put(ifCustom("string", custom, where), n)
	case reflect.Bool:
		n := newNode("scalar")
		n.T = "bool"
		return x.put("bool", n)
	case reflect.Int, reflect.Int8, reflect.Int16, reflect.Int32, reflect.Int64, reflect.Uint, reflect.Uint8, reflect.Uint16, reflect.Uint32, reflect.Uint64:
		n := newNode("scalar")
		n.T = "int"
		return x.put("int", n)
	case reflect.Float32, reflect.Float64:
		n := newNode("scalar")
		n.T = "float"
		return x.put("float", n)
	default:
		n := newNode("scalar")
		n.T = "unsupported:" + t.Kind().String()
		return x.put(n.T, n)
	}
}

func ifCustom(id string, custom bool, where string) string {
	if custom {
		return where
	}
	return id
}

// fields mirrors yaml.v3's getStructInfo: exported fields, `yaml:"name,flags"`, "-" skipped, untagged
// fields keyed by the lower-cased field name, `,inline` structs merged, an inline map opens the node.
func (x *gExtractor) fields(t reflect.Type, n *gNode, id string) {
	for i := 0; i < t.NumField(); i++ {
		f := t.Field(i)
		if f.PkgPath != "" && !f.Anonymous {
			continue
		}
		tag := f.Tag.Get("yaml")
		if tag == "" && !strings.Contains(string(f.Tag), ":") {
			tag = string(f.Tag)
		}
		if tag == "-" {
			continue
		}
		inline := false
		parts := strings.Split(tag, ",")
		for _, flag := range parts[1:] {
			if flag == "inline" {
				inline = true
			}
		}
		name := parts[0]
		if inline {
			ft := f.Type
			for ft.Kind() == reflect.Ptr {
				ft = ft.Elem()
			}
			switch ft.Kind() {
			case reflect.Map:
				n.Open = true
			case reflect.Struct:
				if isCustom(ft) {
					n.Custom = true
					if n.CustomBy == "" {
						n.CustomBy = goTypeName(ft)
					}
				}
				n.Embeds = append(n.Embeds, goTypeName(ft))
				sub := newNode("map")
				x.fields(ft, sub, id)
				n.Keys = append(n.Keys, sub.Keys...)
				n.Embeds = append(n.Embeds, sub.Embeds...)
				if sub.Open {
					n.Open = true
				}
				if sub.Custom {
					n.Custom = true
					if n.CustomBy == "" {
						n.CustomBy = sub.CustomBy
					}
				}
			}
			continue
		}
		if name == "" {
			name = strings.ToLower(f.Name)
		}
		n.Keys = append(n.Keys, gKey{K: name, C: x.visit(f.Type, id+"."+name), F: f.Name})
	}
}

func loaderGrammar() grammar {
	g := grammar{}
	for name, v := range map[string]any{
		"pipeline": verifapi.Pipeline{},
		"compiler": verifapi.YAMLCompiler{},
		"veneers":  verifapi.YAMLVeneers{},
	} {
		x := &gExtractor{nodes: map[string]*gNode{}}
		root := x.visit(reflect.TypeOf(v), name)
		g[name] = &gFile{Root: root, Nodes: x.nodes}
	}
	return g
}

func c20Grammar(args []string) int {
	out, _ := json.Marshal(loaderGrammar())
	fmt.Println(string(out))
	return 0
}

func loadGrammar(path string) grammar {
	g := grammar{}
	b, err := os.ReadFile(path)
	if err != nil {
		panic(err)
	}
	if err := json.Unmarshal(b, &g); err != nil {
		panic(err)
	}
	return g
}

// ------------------------------------------------------------- rendering

type c20Step struct {
	At  []string `json:"at"`
	Pub string   `json:"pub"`
	Ldr string   `json:"ldr"`
}

type c20Case struct {
	File  string    `json:"file"`
	Steps []c20Step `json:"steps"`
	Leaf  struct {
		K   string `json:"k"`
		Why string `json:"why"`
		Pub string `json:"pub"`
		Ldr string `json:"ldr"`
	} `json:"leaf"`
	Inj     []int  `json:"inj"`
	Style   string `json:"style"`
	Form    string `json:"form"`
	Carrier string `json:"carrier"`
	Tail    struct {
		Gap   int      `json:"gap"`   // empty documents between the configuration and the further document
		Empty string   `json:"empty"` // how they are written
		Load  []string `json:"load"`  // [] = the unknown key at the root; else the rule list holding one entry without action
	} `json:"tail"`
	Pos       int  `json:"pos"`
	NPos      int  `json:"npos"`
	ExpL      bool `json:"expl"`
	ExpP      bool `json:"expp"`
	EmptyRule bool `json:"emptyrule"`
}

var c20RuleLists = map[string]bool{"compiler|passes|[]": true, "veneers|builders|[]": true, "veneers|options|[]": true}

func isRuleList(file string, at []string) bool {
	return c20RuleLists[file+"|"+strings.Join(at, "|")]
}

// values whose SYNTAX the loaders check while loading (C20 compares key sets, so every generated value is
// well-formed): keyed by Go type and Go field name, resolved to the yaml key through the current grammar.
var c20Values = map[string]any{
	"yaml.ReplaceReference.From":             "pkg.ObjA",
	"yaml.ReplaceReference.To":               "pkg.ObjB",
	"yaml.FieldsSetRequired.Fields":          []any{"pkg.Obj.field"},
	"yaml.FieldsSetNotRequired.Fields":       []any{"pkg.Obj.field"},
	"yaml.Omit.Objects":                      []any{"pkg.Obj"},
	"yaml.ConstantToEnum.Objects":            []any{"pkg.Obj"},
	"yaml.OmitFields.Fields":                 []any{"pkg.Obj.field"},
	"yaml.AddFields.To":                      "pkg.Obj",
	"yaml.NameAnonymousStruct.Field":         "pkg.Obj.field",
	"yaml.NameAnonymousStruct.As":            "Named",
	"yaml.RetypeObject.Object":               "pkg.Obj",
	"yaml.HintObject.Object":                 "pkg.Obj",
	"yaml.DuplicateObject.Object":            "pkg.Obj",
	"yaml.DuplicateObject.As":                "pkg.Copy",
	"yaml.AddObject.Object":                  "pkg.NewObj",
	"yaml.RenameObject.From":                 "pkg.Obj",
	"yaml.RenameObject.To":                   "Renamed",
	"yaml.RetypeField.Field":                 "pkg.Obj.field",
	"yaml.SchemaSetIdentifier.Package":       "pkg",
	"yaml.SchemaSetEntryPoint.Package":       "pkg",
	"yaml.SchemaSetEntryPoint.EntryPoint":    "Obj",
	"yaml.Veneers.Package":                   "pkg",
	"yaml.Veneers.Language":                  "all",
	"yaml.BuilderSelector.ByObject":          "Obj",
	"yaml.BuilderSelector.ByName":            "Builder",
	"yaml.BuilderSelector.ByVariant":         "panelcfg",
	"yaml.OptionSelector.ByName":             "Obj.option",
	"yaml.OptionSelector.ByBuilder":          "Builder.option",
	"yaml.ByNamesSelector.Object":            "Obj",
	"yaml.ByNamesSelector.Builder":           "Builder",
	"yaml.ByNamesSelector.Options":           []any{"option"},
	"ast.Type.Kind":                          "scalar",
	"ast.ScalarType.ScalarKind":              "string",
	"ast.RefType.ReferredPkg":                "pkg",
	"ast.RefType.ReferredType":               "Obj",
	"ast.ConstantReferenceType.ReferredPkg":  "pkg",
	"ast.ConstantReferenceType.ReferredType": "Obj",
	"ast.TypeConstraint.Op":                  "minLength",
	"ast.TypeConstraint.Args":                []any{1},
	"ast.SchemaMeta.Kind":                    "composable",
	"ast.SchemaMeta.Variant":                 "panelcfg",
	"ast.DisjunctionType.Discriminator":      "kind",
	"veneers.Assignment.Method":              "direct",
	"veneers.Assignment.Path":                "field",
	"codegen.Input.If":                       "true",
}

// keys of a free-form node have a syntax of their own in one place: fields_set_default.defaults is
// keyed by field references
var c20FreeKeys = map[string]string{
	"yaml.FieldsSetDefault.Defaults": "pkg.Obj.",
}

// fields that must be present for the loader to accept the VALUE of a node (not a matter of keys)
var c20Required = map[string][]string{
	"yaml.ReplaceReference":    {"From", "To"},
	"yaml.AddFields":           {"To"},
	"yaml.NameAnonymousStruct": {"Field"},
	"yaml.RetypeObject":        {"Object", "As"},
	"yaml.HintObject":          {"Object"},
	"yaml.DuplicateObject":     {"Object", "As"},
	"yaml.AddObject":           {"Object", "As"},
	"yaml.RenameObject":        {"From"},
	"yaml.RetypeField":         {"Field", "As"},
	"yaml.Veneers":             {"Package"},
	// type definitions are checked at load time (Type.CheckWellFormed) in add_fields / add_object / retype_*: kind and
	// definition must match, enums need a value, containers their element types
	"ast.ArrayType":   {"ValueType"},
	"ast.EnumType":    {"Values"},
	"ast.EnumValue":   {"Name", "Type", "Value"},
	"ast.MapType":     {"IndexType", "ValueType"},
	"ast.RefType":     {"ReferredPkg", "ReferredType"},
	"ast.ScalarType":  {"ScalarKind"},
	"ast.StructField": {"Name", "Type"},
	"ast.Argument":    {"Name", "Type"},
	// since d60050e the types carried by builder transformations go through the same gate: a constant parameter needs its type
	"ast.TypedConstant": {"Type"},
}

// unions of which one member must be set for the VALUE to be accepted (selectors) or meaningful (types)
type c20Union struct {
	members []string
	dflt    string
}

var c20OneOf = map[string]c20Union{
	"yaml.BuilderSelector": {[]string{"ByObject", "ByName", "ByVariant", "GeneratedFromDisjunction"}, "ByName"},
	"yaml.OptionSelector":  {[]string{"ByName", "ByBuilder", "ByNames"}, "ByBuilder"},
	"yaml.ByNamesSelector": {[]string{"Object", "Builder"}, "Builder"},
	"ast.Type":             {[]string{"Disjunction", "Array", "Enum", "Map", "Struct", "Ref", "ConstantReference", "Scalar", "Intersection", "ComposableSlot"}, "Scalar"},
}

var c20KindOfMember = map[string]string{
	"Disjunction": "disjunction", "Array": "array", "Enum": "enum", "Map": "map", "Struct": "struct", "Ref": "ref",
	"ConstantReference": "constant_ref", "Scalar": "scalar", "Intersection": "intersection", "ComposableSlot": "composable_slot",
}

type treeNode struct {
	At    []string `json:"at"`
	Keys  []string `json:"keys"`
	Nulls []string `json:"nulls"` // keys whose value is null
	Ldr   string   `json:"ldr"`   // loader node id ("" below free-form nodes / unknown)
	Doc   int      `json:"doc"`   // 1, or 2.. for the further YAML documents of a multi-document file
}

type injection struct {
	At  []string `json:"at"`
	Key string   `json:"key"`
	Ldr string   `json:"ldr"`
	Pub string   `json:"pub"`
}

type renderer struct {
	kl, kp  grammar
	unknown string
	file    string
	// siblings: at the root, every OTHER list of mappings of the file kind holds one minimal well-formed entry (a valid
	// rule in a rule list): the section under test is followed / preceded by other, valid sections
	siblings bool
	stale    []string // companion fields that could not be resolved in the current grammar
}

func (r *renderer) ln(id string) *gNode {
	if n, ok := r.kl[r.file].Nodes[id]; ok {
		return n
	}
	return nil
}

func (r *renderer) pn(id string) *gNode {
	if n, ok := r.kp[r.file].Nodes[id]; ok {
		return n
	}
	return nil
}

func scalarValue(t string) any {
	switch t {
	case "bool":
		return true
	case "int":
		return 1
	case "float":
		return 1.5
	default:
		return "x"
	}
}

// ownerTypes: the Go types whose tables apply to node n (its own type and the inlined ones)
func ownerTypes(n *gNode) []string {
	return append([]string{n.GoType}, n.Embeds...)
}

func (r *renderer) tableValue(n *gNode, field string) (any, bool) {
	for _, t := range ownerTypes(n) {
		if v, ok := c20Values[t+"."+field]; ok {
			return v, true
		}
	}
	return nil, false
}

// valueFor: a well-formed value for key k of loader node n
func (r *renderer) valueFor(n *gNode, k string, depth int) any {
	if f := n.fieldOfKey(k); f != "" {
		if v, ok := r.tableValue(n, f); ok {
			return v
		}
	}
	c, _ := n.child(k)
	return r.minimal(c, depth+1)
}

// minimal: the smallest well-formed value for loader node id
func (r *renderer) minimal(id string, depth int) any {
	n := r.ln(id)
	if n == nil || depth > 12 {
		return "x"
	}
	switch n.Kind {
	case "scalar":
		return scalarValue(n.T)
	case "list":
		return []any{r.minimal(n.Elem, depth+1)}
	case "free":
		if n.T == "any" {
			return "x"
		}
		return map[string]any{}
	default:
		m := map[string]any{}
		r.companions(m, n, depth+1)
		return m
	}
}

func (r *renderer) minimalPub(id string, depth int) any {
	n := r.pn(id)
	if n == nil || depth > 12 {
		return "x"
	}
	switch n.Kind {
	case "scalar":
		return scalarValue(n.T)
	case "list":
		return []any{r.minimalPub(n.Elem, depth+1)}
	case "free":
		if n.T == "any" {
			return "x"
		}
		return map[string]any{}
	default:
		return map[string]any{}
	}
}

func (r *renderer) companions(m map[string]any, n *gNode, depth int) {
	if n == nil || n.Kind != "map" {
		return
	}
	has := func(field string) bool {
		k := n.keyOfField(field)
		if k == "" {
			return false
		}
		_, ok := m[k]
		return ok
	}
	add := func(owner, field string) {
		k := n.keyOfField(field)
		if k == "" {
			r.stale = append(r.stale, owner+"."+field)
			return
		}
		if _, ok := m[k]; !ok {
			m[k] = r.valueFor(n, k, depth)
		}
	}
	for _, t := range ownerTypes(n) {
		if u, ok := c20OneOf[t]; ok {
			present := ""
			for _, f := range u.members {
				if has(f) {
					present = f
					break
				}
			}
			if present == "" {
				add(t, u.dflt)
				present = u.dflt
			}
			if t == "ast.Type" {
				if k := n.keyOfField("Kind"); k != "" {
					m[k] = c20KindOfMember[present]
				}
			}
		}
	}
	for _, t := range ownerTypes(n) {
		for _, f := range c20Required[t] {
			add(t, f)
		}
	}
}

func (r *renderer) unknownKeyFor(parent *gNode, viaKey string) string {
	if parent != nil {
		if f := parent.fieldOfKey(viaKey); f != "" {
			for _, t := range ownerTypes(parent) {
				if p, ok := c20FreeKeys[t+"."+f]; ok {
					return p + r.unknown
				}
			}
		}
	}
	return r.unknown
}

func contains(xs []int, x int) bool {
	for _, y := range xs {
		if y == x {
			return true
		}
	}
	return false
}

// build renders step i (1-based) of the case and everything below it.
func (r *renderer) build(c *c20Case, i int, injs *[]injection) any {
	st := c.Steps[i-1]
	n := r.ln(st.Ldr)
	m := map[string]any{}
	last := i == len(c.Steps)
	if !last {
		next := c.Steps[i]
		key := next.At[len(st.At)]
		child := r.build(c, i+1, injs)
		for d := len(next.At); d > len(st.At)+1; d-- {
			lst := []any{}
			if d == len(next.At) && i+1 == innermostListStep(c) && c.NPos > 1 {
				// the entry under test at position Pos of NPos entries; the others are minimal well-formed entries
				filler := func() any {
					if isRuleList(c.File, next.At[:d]) {
						return r.fillerRule(next.Ldr)
					}
					return r.minimal(next.Ldr, 0)
				}
				for p := 0; p < c.Pos; p++ {
					lst = append(lst, filler())
				}
				lst = append(lst, child)
				for p := c.Pos + 1; p < c.NPos; p++ {
					lst = append(lst, filler())
				}
			} else {
				lst = append(lst, child)
			}
			child = lst
		}
		m[key] = child
	} else if c.Leaf.K != "" {
		switch {
		case c.Form == "null":
			m[c.Leaf.K] = nil
		case c.Form == "empty":
			m[c.Leaf.K] = r.emptyValue(c.Leaf.Ldr)
		case c.Leaf.Why == "only-published":
			m[c.Leaf.K] = r.minimalPub(c.Leaf.Pub, 0)
		default:
			m[c.Leaf.K] = r.valueFor(n, c.Leaf.K, 0)
		}
	}
	if last && c.Leaf.K == "" && c.Form == "null" {
		return nil
	}
	if last && c.Leaf.K == "" && c.Form == "empty" {
		return map[string]any{} // really empty: no companion keys
	}
	if n != nil && n.Kind == "map" {
		r.companions(m, n, 0)
	}
	if i == 1 && r.siblings && n != nil {
		for _, kk := range n.Keys {
			ln := r.ln(kk.C)
			if _, present := m[kk.K]; present || ln == nil || ln.Kind != "list" {
				continue
			}
			if el := r.ln(ln.Elem); el != nil && el.Kind == "map" {
				if isRuleList(c.File, []string{kk.K, "[]"}) {
					m[kk.K] = []any{r.fillerRule(ln.Elem)}
				} else {
					m[kk.K] = []any{r.minimal(ln.Elem, 0)}
				}
			}
		}
	}
	if contains(c.Inj, i) {
		key := r.unknown
		if i > 1 {
			prev := c.Steps[i-2]
			key = r.unknownKeyFor(r.ln(prev.Ldr), st.At[len(prev.At)])
		}
		if (c.Style == "case" || c.Style == "midcase") && n != nil && n.Kind == "map" {
			// a declared key of this node with ONE letter in upper case (the first: `Passes`; the one after the last `_`,
			// else the last: `rename_Object`): differs from a legal key in letter case only, not a key of the language
			for _, kk := range n.Keys {
				at := 0
				if c.Style == "midcase" {
					at = len(kk.K) - 1
					if u := strings.LastIndex(kk.K, "_"); u >= 0 && u+1 < len(kk.K) {
						at = u + 1
					}
				}
				if v := kk.K[:at] + strings.ToUpper(kk.K[at:at+1]) + kk.K[at+1:]; v != kk.K {
					if _, known := n.child(v); !known {
						key = v
						break
					}
				}
			}
		}
		if c.Style == "param" {
			key = strings.Replace(key, r.unknown, "%"+r.unknown+"%", 1) // parameters are interpolated in some VALUES, never in keys
		}
		if c.Carrier == "merge" {
			m[c20MergeMark] = map[string]any{key: "x"} // written `<<: {key: x}`: the key arrives through a YAML merge key
		} else {
			m[key] = "x"
		}
		*injs = append(*injs, injection{At: st.At, Key: key, Ldr: st.Ldr, Pub: st.Pub})
	}
	return m
}

const c20MergeMark = "C20MERGEKEY"

// hoistMerge: the document a YAML processor sees once merge keys are applied
func hoistMerge(v any) any {
	switch x := v.(type) {
	case map[string]any:
		m := map[string]any{}
		for k, e := range x {
			if k == c20MergeMark {
				for mk, mv := range e.(map[string]any) {
					m[mk] = mv
				}
				continue
			}
			m[k] = hoistMerge(e)
		}
		return m
	case []any:
		l := make([]any, len(x))
		for i, e := range x {
			l[i] = hoistMerge(e)
		}
		return l
	}
	return v
}

// innermostListStep: index (1-based) of the last step that is an entry of a list: the list `pos` applies to
func innermostListStep(c *c20Case) int {
	for i := len(c.Steps); i >= 1; i-- {
		at := c.Steps[i-1].At
		if len(at) > 0 && at[len(at)-1] == "[]" {
			return i
		}
	}
	return 0
}

// emptyValue: the empty / falsy value of the kind of loader node id
func (r *renderer) emptyValue(id string) any {
	n := r.ln(id)
	if n == nil {
		return ""
	}
	switch n.Kind {
	case "list":
		return []any{}
	case "map":
		return map[string]any{}
	case "free":
		if n.T == "any" {
			return ""
		}
		return map[string]any{}
	default:
		switch n.T {
		case "bool":
			return false
		case "int":
			return 0
		case "float":
			return 0.0
		}
		return ""
	}
}

// fillerRule: a well-formed rule for the other positions of a rule list: first member of the union
func (r *renderer) fillerRule(ldr string) any {
	n := r.ln(ldr)
	m := map[string]any{}
	if n != nil && len(n.Keys) > 0 {
		m[n.Keys[0].K] = r.valueFor(n, n.Keys[0].K, 0)
	}
	return m
}

// tree lists every mapping node of a rendered document; ldr is the loader node the path reaches.
func (r *renderer) tree(v any, at []string, ldr string, out *[]treeNode) {
	n := r.ln(ldr)
	switch x := v.(type) {
	case map[string]any:
		keys := make([]string, 0, len(x))
		for k := range x {
			keys = append(keys, k)
		}
		sort.Strings(keys)
		nulls := []string{}
		for _, k := range keys {
			if x[k] == nil {
				nulls = append(nulls, k)
			}
		}
		*out = append(*out, treeNode{At: append([]string{}, at...), Keys: keys, Nulls: nulls, Ldr: ldr, Doc: 1})
		for _, k := range keys {
			c := ""
			if n != nil && n.Kind == "map" {
				c, _ = n.child(k)
			}
			r.tree(x[k], append(append([]string{}, at...), k), c, out)
		}
	case []any:
		el := ""
		if n != nil && n.Kind == "list" {
			el = n.Elem
		}
		for _, e := range x {
			r.tree(e, append(append([]string{}, at...), "[]"), el, out)
		}
	case nil:
		// a null entry of a rule list is an entry without keys (`- ~`, a dangling `-`)
		if isRuleList(r.file, at) {
			*out = append(*out, treeNode{At: append([]string{}, at...), Keys: []string{}, Nulls: []string{}, Ldr: ldr, Doc: 1})
		}
	}
}

// ----------------------------------------------------------------- loaders

var (
	reField   = regexp.MustCompile(`field (\S+) not found in type (\S+)`)
	reLineNum = regexp.MustCompile(`line \d+: `)
)

type verdict struct {
	Accept bool   `json:"accept"`
	Err    string `json:"err"`
	Class  string `json:"class"` // ok | key | empty | document | type | value | panic
	Key    string `json:"key"`
	Type   string `json:"type"`
}

func classifyErr(err error) verdict {
	if err == nil {
		return verdict{Accept: true, Class: "ok"}
	}
	msg := err.Error()
	v := verdict{Err: reLineNum.ReplaceAllString(msg, "")}
	switch {
	case reField.MatchString(msg):
		m := reField.FindStringSubmatch(msg)
		v.Class, v.Key, v.Type = "key", m[1], m[2]
	case strings.Contains(msg, "empty rule") || strings.Contains(msg, "empty compiler pass"):
		v.Class = "empty"
	case strings.Contains(msg, "additional YAML document"):
		v.Class = "document" // the file holds a second YAML document: rejected as a whole
	case strings.Contains(msg, "cannot unmarshal"):
		v.Class = "type"
	default:
		v.Class = "value"
	}
	return v
}

func runLoader(file string, doc []byte, tmp string) (v verdict) {
	defer func() {
		if rec := recover(); rec != nil {
			v = verdict{Class: "panic", Err: fmt.Sprint(rec)}
		}
	}()
	switch file {
	case "compiler":
		_, err := verifapi.NewCompilerLoader().Load(bytes.NewReader(doc))
		return classifyErr(err)
	case "pipeline":
		p := filepath.Join(tmp, "pipeline.yaml")
		if err := os.WriteFile(p, doc, 0o600); err != nil {
			panic(err)
		}
		_, err := verifapi.PipelineFromFile(p)
		return classifyErr(err)
	case "veneers":
		p := filepath.Join(tmp, "veneers.yaml")
		if err := os.WriteFile(p, doc, 0o600); err != nil {
			panic(err)
		}
		_, err := verifapi.NewVeneersLoader().RewriterFrom([]string{p}, verifapi.RewriteConfig{})
		return classifyErr(err)
	}
	return verdict{Class: "value", Err: "unknown file kind " + file}
}

type c20Record struct {
	ID     int         `json:"id"`
	Src    string      `json:"src"`
	File   string      `json:"file"`
	Case   *c20Case    `json:"case,omitempty"`
	Origin string      `json:"origin,omitempty"`
	Doc    any         `json:"doc"`
	YAML   string      `json:"yaml"`
	Nodes  []treeNode  `json:"nodes"`
	Inj    []injection `json:"inj"`
	Loader verdict     `json:"loader"`
	Routes []c20Route  `json:"routes"`
	Stale  []string    `json:"stale,omitempty"`
	Extra  []any       `json:"extra"` // the further YAML documents of the file (after `---`)
	text   string      // the file as written when it is not simply yaml.Marshal(Doc)
}

// route: the same document through another entry point by which cog itself reaches the loader
type c20Route struct {
	Name string `json:"name"`
	verdict
}

const c20TinySchema = `{"$schema":"http://json-schema.org/draft-07/schema#","$ref":"#/definitions/Thing","definitions":{"Thing":{"type":"object","properties":{"name":{"type":"string"}}}}}`

// c20Scaffold writes, once per scratch directory, the fixed files of the routes. The file under test always sits BETWEEN two
// valid files of its kind (a_valid, <file>, z_valid): a verdict about it must survive the files loaded before and after it.
func c20Scaffold(tmp string, file string, valid []byte) {
	if _, err := os.Stat(filepath.Join(tmp, "scaffold-"+file)); err == nil {
		return
	}
	must := func(err error) {
		if err != nil {
			panic(err)
		}
	}
	must(os.WriteFile(filepath.Join(tmp, "scaffold-"+file), nil, 0o600))
	switch file {
	case "compiler":
		must(os.WriteFile(filepath.Join(tmp, "schema.json"), []byte(c20TinySchema), 0o600))
		for _, n := range []string{"a_valid.yaml", "z_valid.yaml"} {
			must(os.WriteFile(filepath.Join(tmp, n), valid, 0o600))
		}
		files := ""
		for _, n := range []string{"a_valid.yaml", "passes.yaml", "z_valid.yaml"} {
			files += "\n        - " + filepath.Join(tmp, n)
		}
		input := "  - jsonschema:\n      path: " + filepath.Join(tmp, "schema.json") + "\n      package: thing\n"
		must(os.WriteFile(filepath.Join(tmp, "route-common.yaml"),
			[]byte("inputs:\n"+input+"transformations:\n  schemas:"+files+"\n"), 0o600))
		must(os.WriteFile(filepath.Join(tmp, "route-input.yaml"),
			[]byte("inputs:\n"+input+"      transformations:"+files+"\n"), 0o600))
	case "veneers":
		must(os.MkdirAll(filepath.Join(tmp, "veneersdir"), 0o700))
		for _, n := range []string{"a_valid.yaml", "z_valid.yaml"} {
			must(os.WriteFile(filepath.Join(tmp, "veneersdir", n), valid, 0o600))
		}
		must(os.WriteFile(filepath.Join(tmp, "route-builders.yaml"),
			[]byte("transformations:\n  builders:\n    - "+filepath.Join(tmp, "veneersdir")+"\noutput:\n  builders: true\n"), 0o600))
	}
}

func c20Guarded(f func() error) (v verdict) {
	defer func() {
		if rec := recover(); rec != nil {
			v = verdict{Class: "panic", Err: fmt.Sprint(rec)}
		}
	}()
	return classifyErr(f())
}

// c20RunRoutes drives the document through the other entry points by which cog itself reaches the loaders:
//
//	compiler: CompilerLoader.PassesFrom(files); a pipeline whose transformations.schemas names the files
//	          (Pipeline.LoadSchemas); a pipeline whose inputs[].jsonschema.transformations names them
//	veneers:  VeneersLoader.RewriterFrom(files) with neighbours; a pipeline whose transformations.builders names the
//	          directory holding the files (Pipeline.ContextForLanguage, which loads the veneers before applying them)
//	pipeline: PipelineFromFile(file, Parameters(...)) - the call `cog generate --config file --parameters k=v` makes
//
// A verdict is only judged when it is about keys / empty rules (classifyErr); anything the pipeline reports
// after the files were decoded is not.
func c20RunRoutes(file string, doc []byte, tmp string, valid []byte) []c20Route {
	routes := []c20Route{}
	switch file {
	case "compiler":
		c20Scaffold(tmp, file, valid)
		p := filepath.Join(tmp, "passes.yaml")
		if err := os.WriteFile(p, doc, 0o600); err != nil {
			panic(err)
		}
		routes = append(routes, c20Route{"PassesFrom", c20Guarded(func() error {
			_, err := verifapi.NewCompilerLoader().PassesFrom([]string{filepath.Join(tmp, "a_valid.yaml"), p, filepath.Join(tmp, "z_valid.yaml")})
			return err
		})})
		for _, name := range []string{"route-common.yaml", "route-input.yaml"} {
			name := name
			routes = append(routes, c20Route{"pipeline:" + map[string]string{"route-common.yaml": "transformations.schemas", "route-input.yaml": "inputs[].transformations"}[name],
				c20Guarded(func() error {
					pl, err := verifapi.PipelineFromFile(filepath.Join(tmp, name))
					if err != nil {
						return fmt.Errorf("route scaffold does not load: %w", err)
					}
					_, err = pl.LoadSchemas(context.Background())
					return err
				})})
		}
	case "veneers":
		c20Scaffold(tmp, file, valid)
		p := filepath.Join(tmp, "veneersdir", "veneers.yaml")
		if err := os.WriteFile(p, doc, 0o600); err != nil {
			panic(err)
		}
		routes = append(routes, c20Route{"RewriterFrom[valid,file,valid]", c20Guarded(func() error {
			_, err := verifapi.NewVeneersLoader().RewriterFrom([]string{filepath.Join(tmp, "veneersdir", "a_valid.yaml"), p,
				filepath.Join(tmp, "veneersdir", "z_valid.yaml")}, verifapi.RewriteConfig{})
			return err
		})})
		routes = append(routes, c20Route{"pipeline:transformations.builders", c20Guarded(func() error {
			pl, err := verifapi.PipelineFromFile(filepath.Join(tmp, "route-builders.yaml"))
			if err != nil {
				return fmt.Errorf("route scaffold does not load: %w", err)
			}
			_, err = pl.ContextForLanguage(verifapi.NewGo(verifapi.GoConfig{}), nil)
			return err
		})})
	case "pipeline":
		p := filepath.Join(tmp, "pipeline.yaml") // written by runLoader
		routes = append(routes, c20Route{"PipelineFromFile+Parameters", c20Guarded(func() error {
			_, err := verifapi.PipelineFromFile(p, verifapi.PipelineParameters(map[string]string{"extra": "value"}))
			return err
		})})
	}
	return routes
}

func c20Run(args []string) int {
	fs := flag.NewFlagSet("c20-run", flag.ExitOnError)
	in := fs.String("in", "", "TLC output with CASE lines")
	klp := fs.String("kloader", "", "loader grammar (json)")
	kpp := fs.String("kpublished", "", "published grammar (json)")
	unknown := fs.String("unknown", "zz_unknown", "the unknown key")
	siblings := fs.Bool("siblings", false, "fill the other root-level lists with one valid entry each")
	fs.Parse(args)
	kl, kp := loadGrammar(*klp), loadGrammar(*kpp)
	tmp, err := os.MkdirTemp("", "c20-run-")
	if err != nil {
		panic(err)
	}
	defer os.RemoveAll(tmp)
	f, err := os.Open(*in)
	if err != nil {
		panic(err)
	}
	defer f.Close()
	sc := bufio.NewScanner(f)
	sc.Buffer(make([]byte, 1<<20), 1<<26)
	w := bufio.NewWriterSize(os.Stdout, 1<<20)
	defer w.Flush()
	const prefix = `<<"CASE", `
	cases := []*c20Case{}
	for sc.Scan() {
		line := sc.Text()
		if !strings.HasPrefix(line, prefix) || !strings.HasSuffix(line, ">>") {
			continue
		}
		var payload string
		if err := json.Unmarshal([]byte(line[len(prefix):len(line)-2]), &payload); err != nil {
			fmt.Fprintln(os.Stderr, "unparsable CASE line:", line[:min(len(line), 200)])
			return 1
		}
		c := &c20Case{}
		if err := json.Unmarshal([]byte(payload), c); err != nil {
			fmt.Fprintln(os.Stderr, "unparsable CASE payload:", payload[:min(len(payload), 200)], err)
			return 1
		}
		cases = append(cases, c)
	}
	if err := sc.Err(); err != nil {
		panic(err)
	}
	// the loaders are pure functions of the file: run them on all cores, keep the order
	var lim syscall.Rlimit
	if syscall.Getrlimit(syscall.RLIMIT_NOFILE, &lim) == nil && lim.Cur < lim.Max {
		lim.Cur = lim.Max
		_ = syscall.Setrlimit(syscall.RLIMIT_NOFILE, &lim)
	}
	nw := runtime.NumCPU()
	if nw > 8 {
		nw = 8
	}
	out := make([][]byte, len(cases))
	var wg sync.WaitGroup
	for wk := 0; wk < nw; wk++ {
		wg.Add(1)
		go func(wk int) {
			defer wg.Done()
			dir := filepath.Join(tmp, fmt.Sprint(wk))
			if err := os.Mkdir(dir, 0o700); err != nil {
				panic(err)
			}
			for n, i := 0, wk; i < len(cases); n, i = n+1, i+nw {
				if n%128 == 127 {
					// CompilerLoader.PassesFrom opens the files it is given and never closes them: let the finalizers do it
					runtime.GC()
				}
				c := cases[i]
				r := &renderer{kl: kl, kp: kp, unknown: *unknown, file: c.File, siblings: *siblings}
				injs := []injection{}
				raw := r.build(c, 1, &injs)
				rec := c20Record{ID: i + 1, Src: "tlc", File: c.File, Case: c, Doc: hoistMerge(raw), Inj: injs, Stale: r.stale}
				mustYAML := func(v any) string {
					b, err := yaml.Marshal(v)
					if err != nil {
						panic(err)
					}
					return string(b)
				}
				switch c.Carrier {
				case "merge":
					rec.text = strings.ReplaceAll(mustYAML(raw), c20MergeMark+":", "<<:")
				case "bom":
					rec.text = "\ufeff" + mustYAML(raw)
				case "seconddoc":
					// the further document: the unknown key at its root, or a rule list whose only entry has no action. It comes
					// after Tail.Gap empty documents (null entries of Extra: nothing to look at, but they are documents of the stream)
					second := map[string]any{r.unknown: "x"}
					if len(c.Tail.Load) > 0 {
						second = map[string]any{c.Tail.Load[0]: []any{map[string]any{}}}
					} else {
						rec.Inj = append(rec.Inj, injection{At: []string{}, Key: r.unknown, Ldr: kl[c.File].Root, Pub: kp[c.File].Root})
					}
					rec.text = mustYAML(raw)
					rec.Extra = []any{}
					for g := 0; g < c.Tail.Gap; g++ {
						rec.Extra = append(rec.Extra, nil)
						rec.text += c20EmptyDocument(c.Tail.Empty)
					}
					rec.Extra = append(rec.Extra, second)
					rec.text += "---\n" + mustYAML(second)
				}
				var buf bytes.Buffer
				emitRecord(json.NewEncoder(&buf), r, &rec, dir)
				out[i] = buf.Bytes()
			}
		}(wk)
	}
	wg.Wait()
	for _, b := range out {
		w.Write(b)
	}
	return 0
}

// c20EmptyDocument: one YAML document without content, in the spellings TLC chooses from (EmptyDocs)
func c20EmptyDocument(form string) string {
	switch form {
	case "bare":
		return "---\n"
	case "comment":
		return "---\n# nothing here\n"
	case "null":
		return "--- ~\n"
	case "end":
		return "---\n...\n"
	}
	panic("unknown spelling of an empty document: " + form)
}

func emitRecord(enc *json.Encoder, r *renderer, rec *c20Record, tmp string) {
	y := []byte(rec.text)
	if rec.text == "" {
		var err error
		if y, err = yaml.Marshal(rec.Doc); err != nil {
			panic(err)
		}
	}
	if rec.Extra == nil {
		rec.Extra = []any{}
	}
	rec.YAML = string(y)
	rec.Nodes = []treeNode{}
	r.tree(rec.Doc, []string{}, r.kl[rec.File].Root, &rec.Nodes)
	for i, e := range rec.Extra {
		more := []treeNode{}
		r.tree(e, []string{}, r.kl[rec.File].Root, &more)
		for _, n := range more {
			n.Doc = i + 2
			rec.Nodes = append(rec.Nodes, n)
		}
	}
	rec.Loader = runLoader(rec.File, y, tmp)
	valid, err := yaml.Marshal(r.minimal(r.kl[rec.File].Root, 0))
	if err != nil {
		panic(err)
	}
	rec.Routes = c20RunRoutes(rec.File, y, tmp, valid)
	if err := enc.Encode(rec); err != nil {
		panic(err)
	}
}

// ------------------------------------------------------ real documents

// normalise turns what yaml.v3 decodes into `any` into JSON-able values (string keys only)
func normalise(v any) any {
	switch x := v.(type) {
	case map[string]any:
		m := map[string]any{}
		for k, e := range x {
			m[k] = normalise(e)
		}
		return m
	case map[any]any:
		m := map[string]any{}
		for k, e := range x {
			m[fmt.Sprint(k)] = normalise(e)
		}
		return m
	case []any:
		l := make([]any, len(x))
		for i, e := range x {
			l[i] = normalise(e)
		}
		return l
	default:
		return v
	}
}

func deepCopy(v any) any {
	switch x := v.(type) {
	case map[string]any:
		m := map[string]any{}
		for k, e := range x {
			m[k] = deepCopy(e)
		}
		return m
	case []any:
		l := make([]any, len(x))
		for i, e := range x {
			l[i] = deepCopy(e)
		}
		return l
	default:
		return v
	}
}

// mappingSites lists the mapping nodes of a document as access paths (keys and list indices)
func mappingSites(v any, path []any, out *[][]any) {
	switch x := v.(type) {
	case map[string]any:
		*out = append(*out, append([]any{}, path...))
		keys := make([]string, 0, len(x))
		for k := range x {
			keys = append(keys, k)
		}
		sort.Strings(keys)
		for _, k := range keys {
			mappingSites(x[k], append(append([]any{}, path...), k), out)
		}
	case []any:
		for i, e := range x {
			mappingSites(e, append(append([]any{}, path...), i), out)
		}
	}
}

func at(v any, path []any) any {
	for _, p := range path {
		switch k := p.(type) {
		case string:
			v = v.(map[string]any)[k]
		case int:
			v = v.([]any)[k]
		}
	}
	return v
}

func abstractPath(path []any) []string {
	out := []string{}
	for _, p := range path {
		if s, ok := p.(string); ok {
			out = append(out, s)
		} else {
			out = append(out, "[]")
		}
	}
	return out
}

func c20Real(args []string) int {
	fs := flag.NewFlagSet("c20-real", flag.ExitOnError)
	repo := fs.String("repo", "/repo", "repository root")
	klp := fs.String("kloader", "", "loader grammar (json)")
	kpp := fs.String("kpublished", "", "published grammar (json)")
	unknown := fs.String("unknown", "zz_unknown", "the unknown key")
	fs.Parse(args)
	kl, kp := loadGrammar(*klp), loadGrammar(*kpp)
	tmp, err := os.MkdirTemp("", "c20-real-")
	if err != nil {
		panic(err)
	}
	defer os.RemoveAll(tmp)
	w := bufio.NewWriterSize(os.Stdout, 1<<20)
	defer w.Flush()
	enc := json.NewEncoder(w)
	type realDoc struct {
		file, origin string
		text         []byte
	}
	docs := []realDoc{}
	files, _ := filepath.Glob(filepath.Join(*repo, "config", "*.yaml"))
	sort.Strings(files)
	for _, p := range files {
		b, err := os.ReadFile(p)
		if err != nil {
			panic(err)
		}
		docs = append(docs, realDoc{"pipeline", "config/" + filepath.Base(p), b})
	}
	// YAML blocks of the documentation that name one of the published schemas (`# yaml-language-server: $schema=...`):
	// they are presented to users as files that validate, so they must load as well
	kinds := map[string]string{"pipeline.json": "pipeline", "compiler_passes.json": "compiler", "veneers.json": "veneers"}
	reSchema := regexp.MustCompile(`yaml-language-server:\s*\$schema=\S*/schemas/(pipeline|compiler_passes|veneers)\.json`)
	mds := []string{}
	filepath.WalkDir(filepath.Join(*repo, "docs"), func(p string, d os.DirEntry, err error) error {
		if err == nil && !d.IsDir() && strings.HasSuffix(p, ".md") {
			mds = append(mds, p)
		}
		return nil
	})
	sort.Strings(mds)
	for _, p := range mds {
		b, err := os.ReadFile(p)
		if err != nil {
			continue
		}
		rel, _ := filepath.Rel(*repo, p)
		lines := strings.Split(string(b), "\n")
		for i := 0; i < len(lines); i++ {
			t := strings.TrimSpace(lines[i])
			if !strings.HasPrefix(t, "```") || !strings.Contains(strings.ToLower(t), "yaml") {
				continue
			}
			indent := len(lines[i]) - len(strings.TrimLeft(lines[i], " \t"))
			block := []string{}
			start := i + 1
			for i++; i < len(lines) && !strings.HasPrefix(strings.TrimSpace(lines[i]), "```"); i++ {
				l := lines[i]
				if len(l) >= indent {
					l = l[indent:]
				} else {
					l = strings.TrimLeft(l, " \t")
				}
				block = append(block, l)
			}
			text := strings.Join(block, "\n")
			if m := reSchema.FindStringSubmatch(text); m != nil {
				docs = append(docs, realDoc{kinds[m[1]+".json"], fmt.Sprintf("%s:%d", rel, start+1), []byte(text)})
			}
		}
	}
	id := 0
	for _, rd := range docs {
		var raw any
		if err := yaml.Unmarshal(rd.text, &raw); err != nil {
			continue
		}
		doc := normalise(raw)
		if m, ok := doc.(map[string]any); !ok || len(m) == 0 {
			continue
		}
		r := &renderer{kl: kl, kp: kp, unknown: *unknown, file: rd.file}
		id++
		emitRecord(enc, r, &c20Record{ID: id, Src: "real", File: rd.file, Origin: rd.origin, Doc: doc, Inj: []injection{}}, tmp)
		sites := [][]any{}
		mappingSites(doc, nil, &sites)
		for _, site := range sites {
			variant := deepCopy(doc)
			at(variant, site).(map[string]any)[*unknown] = "x"
			ap := abstractPath(site)
			// loader node at the site, for the report
			nodes := []treeNode{}
			r.tree(variant, []string{}, kl[rd.file].Root, &nodes)
			ldr := ""
			for _, n := range nodes {
				if strings.Join(n.At, "|") == strings.Join(ap, "|") {
					ldr = n.Ldr
				}
			}
			id++
			emitRecord(enc, r, &c20Record{ID: id, Src: "real", File: rd.file, Origin: rd.origin, Doc: variant,
				Inj: []injection{{At: ap, Key: *unknown, Ldr: ldr}}}, tmp)
		}
	}
	return 0
}

// c20Doc pushes one given document through the real loader (replay files, binding self-test).
func c20Doc(args []string) int {
	fs := flag.NewFlagSet("c20-doc", flag.ExitOnError)
	in := fs.String("in", "", "json {file, doc, case}")
	klp := fs.String("kloader", "", "loader grammar (json)")
	kpp := fs.String("kpublished", "", "published grammar (json)")
	unknown := fs.String("unknown", "zz_unknown", "the unknown key")
	fs.Parse(args)
	kl, kp := loadGrammar(*klp), loadGrammar(*kpp)
	b, err := os.ReadFile(*in)
	if err != nil {
		panic(err)
	}
	tmp, err := os.MkdirTemp("", "c20-doc-")
	if err != nil {
		panic(err)
	}
	defer os.RemoveAll(tmp)
	w := bufio.NewWriter(os.Stdout)
	defer w.Flush()
	// one request per line (a single JSON object is the one-line case)
	id := 0
	for _, line := range bytes.Split(bytes.TrimSpace(b), []byte("\n")) {
		var req struct {
			File  string `json:"file"`
			Doc   any    `json:"doc"`
			Extra []any  `json:"extra"`
			Text  string `json:"text"` // the file exactly as written (merge keys, BOM, several documents), when known
		}
		if err := json.Unmarshal(line, &req); err != nil {
			panic(err)
		}
		id++
		r := &renderer{kl: kl, kp: kp, unknown: *unknown, file: req.File}
		rec := c20Record{ID: id, Src: "doc", File: req.File, Doc: req.Doc, Inj: []injection{}, Extra: req.Extra, text: req.Text}
		// injections = keys the loader grammar does not know, for the report
		nodes := []treeNode{}
		r.tree(req.Doc, []string{}, kl[req.File].Root, &nodes)
		for _, n := range nodes {
			ln := r.ln(n.Ldr)
			for _, k := range n.Keys {
				if ln != nil && ln.Kind == "map" && !ln.Open {
					if _, ok := ln.child(k); !ok {
						rec.Inj = append(rec.Inj, injection{At: n.At, Key: k, Ldr: n.Ldr})
					}
				}
			}
		}
		emitRecord(json.NewEncoder(w), r, &rec, tmp)
	}
	return 0
}
