package main

// C09 / C14: builders and converters of generated code (DESIGN 4.5, 6 "C09", "C14").
//
//   c09-gen    one job per line {"id","yaml","root","ir"}: like sem-gen (the REAL codegen.Pipeline described
//              by the YAML file writes its files under <root>) and, in addition, the builder IR that the
//              jennies of every output language receive (Pipeline.ContextForLanguage: language passes,
//              BuilderGenerator.FromAST, veneers, nil checks) is written to <ir>/<id>.<language>.json:
//              per builder its constructor and options with argument shapes and assignments (path, method,
//              constant / argument / envelope, nil checks, constraints). The checks bind the options of the
//              specification (BuilderMC) to the generated API through it.
//   c09-glue   one job per line {"id","dir","pkg","module"}: parses the generated <x>_builder_gen.go /
//              <x>_converter_gen.go files of one package (go/parser) and writes verif_glue_gen.go INTO that
//              package: an init() that registers, per builder, typed closures (constructor, one per option,
//              Build, a read-only view of the internal object and of builder.errors, the converter) in the
//              verifreg registry, so that one generic driver can call option N with a JSON-encoded argument.
//              Arguments of type cog.Builder[T] (also inside slices / maps) are built from nested call plans.
//   c14-parse  one job per line {"id","text"}: the text a generated converter returned, parsed as a Go
//              expression (go/parser): the builder call chain as a tree {ctor, nargs, calls:[{name,args}]},
//              recursively for builder-typed arguments; a parse error is reported per expression.

import (
	"bufio"
	"bytes"
	"context"
	"encoding/json"
	"fmt"
	"go/ast"
	"go/parser"
	"go/printer"
	"go/token"
	"os"
	"path/filepath"
	"runtime/debug"
	"sort"
	"strings"
	"time"

	"github.com/grafana/cog/verifapi"
)

func init() {
	commands["c09-gen"] = c09Gen
	commands["c09-glue"] = c09Glue
	commands["c14-parse"] = c14Parse
}

// ------------------------------------------------------------------------------------------------
// c09-gen
// ------------------------------------------------------------------------------------------------

type c09GenJob struct {
	ID   string `json:"id"`
	YAML string `json:"yaml"`
	Root string `json:"root"`
	IR   string `json:"ir"`
}

type c09GenResult struct {
	ID        string   `json:"id"`
	OK        bool     `json:"ok"`
	Err       string   `json:"err,omitempty"`
	Panic     string   `json:"panic,omitempty"`
	Files     []string `json:"files,omitempty"`
	Languages []string `json:"languages,omitempty"`
	Ms        float64  `json:"ms"`
}

func shapeOf(ctx *verifapi.LanguageContext, t verifapi.Type) J {
	j := J{"nullable": t.Nullable}
	switch {
	case t.Kind == "array" && t.Array != nil:
		j["k"] = "arr"
		j["t"] = shapeOf(ctx, t.Array.ValueType)
	case t.Kind == "map" && t.Map != nil:
		j["k"] = "map"
		j["t"] = shapeOf(ctx, t.Map.ValueType)
	case t.Kind == "disjunction" && t.Disjunction != nil:
		j["k"] = "disj"
		bs := []any{}
		for _, b := range t.Disjunction.Branches {
			bs = append(bs, shapeOf(ctx, b))
		}
		j["branches"] = bs
	case t.Kind == "ref" && t.Ref != nil:
		resolved := ctx.ResolveRefs(t)
		if ctx.ResolveToBuilder(t) && resolved.Kind == "struct" {
			j["k"] = "builder"
			j["obj"] = t.Ref.ReferredType
		} else if resolved.Kind == "disjunction" && resolved.Disjunction != nil {
			j["k"] = "disj"
			bs := []any{}
			for _, b := range resolved.Disjunction.Branches {
				bs = append(bs, shapeOf(ctx, b))
			}
			j["branches"] = bs
			j["ref"] = t.Ref.ReferredType
		} else {
			j["k"] = "plain"
			j["ref"] = t.Ref.ReferredType
			j["rk"] = string(resolved.Kind)
		}
	case t.Kind == "scalar" && t.Scalar != nil:
		j["k"] = "plain"
		j["sk"] = string(t.Scalar.ScalarKind)
		if t.Scalar.Value != nil {
			j["const"] = projVal(t.Scalar.Value)
		}
		cons := []any{}
		for _, c := range t.Scalar.Constraints {
			cons = append(cons, string(c.Op))
		}
		j["cons"] = cons
	default:
		j["k"] = "plain"
		j["kind"] = string(t.Kind)
	}
	return j
}

func pathIDs(p verifapi.Path) []any {
	out := []any{}
	for _, it := range p {
		if it.Identifier == "" && it.Index != nil {
			continue // the index chunk of a map_to_index assignment
		}
		out = append(out, it.Identifier)
	}
	return out
}

func projAssignment(ctx *verifapi.LanguageContext, a verifapi.Assignment) J {
	j := J{"path": pathIDs(a.Path), "method": string(a.Method), "arg": "", "const": J{"k": "none"}, "envelope": a.Value.Envelope != nil, "key": ""}
	if a.Value.Argument != nil {
		j["arg"] = a.Value.Argument.Name
	}
	if a.Value.Constant != nil {
		j["const"] = projVal(a.Value.Constant)
	}
	if a.Value.Envelope != nil && a.Value.Argument == nil {
		// disjunction_as_options: the argument sits inside the envelope of the union struct
		for _, ev := range a.Value.Envelope.Values {
			if ev.Value.Argument != nil {
				j["arg"] = ev.Value.Argument.Name
				break
			}
		}
	}
	if len(a.Path) > 0 {
		last := a.Path[len(a.Path)-1]
		if last.Index != nil && last.Index.Argument != nil {
			j["key"] = last.Index.Argument.Name
		}
		nullable := []any{}
		for _, it := range a.Path {
			nullable = append(nullable, it.Type.Nullable)
		}
		j["path_nullable"] = nullable
	}
	nc := []any{}
	for _, c := range a.NilChecks {
		nc = append(nc, pathIDs(c.Path))
	}
	j["nilchecks"] = nc
	cons := []any{}
	for _, c := range a.Constraints {
		cons = append(cons, J{"op": string(c.Op), "param": projVal(c.Parameter), "arg": c.Argument.Name})
	}
	j["constraints"] = cons
	return j
}

func c09ProjArgs(ctx *verifapi.LanguageContext, args []verifapi.Argument) []any {
	out := []any{}
	for _, a := range args {
		out = append(out, J{"name": a.Name, "shape": shapeOf(ctx, a.Type)})
	}
	return out
}

func c09ProjBuilders(ctx *verifapi.LanguageContext) []any {
	out := []any{}
	for _, b := range ctx.Builders {
		jb := J{"name": b.Name, "pkg": b.Package, "object": b.For.Name,
			"disjunction": b.For.Type.IsStructGeneratedFromDisjunction(),
			"veneers":     projStrings(b.VeneerTrail)}
		asgs := []any{}
		for _, a := range b.Constructor.Assignments {
			asgs = append(asgs, projAssignment(ctx, a))
		}
		jb["ctor"] = J{"args": c09ProjArgs(ctx, b.Constructor.Args), "asgs": asgs}
		opts := []any{}
		for _, o := range b.Options {
			oa := []any{}
			for _, a := range o.Assignments {
				oa = append(oa, projAssignment(ctx, a))
			}
			opts = append(opts, J{"name": o.Name, "args": c09ProjArgs(ctx, o.Args), "asgs": oa, "veneers": projStrings(o.VeneerTrail)})
		}
		jb["options"] = opts
		// the struct the builder is for: field -> shape (used to bind type keys of the specification to objects)
		fields := []any{}
		if rt := ctx.ResolveRefs(b.For.Type); rt.Kind == "struct" && rt.Struct != nil {
			for _, f := range rt.Struct.Fields {
				fields = append(fields, J{"name": f.Name, "shape": shapeOf(ctx, f.Type), "required": f.Required})
			}
		}
		jb["fields"] = fields
		out = append(out, jb)
	}
	return out
}

func c09GenOne(job c09GenJob) (res c09GenResult) {
	res.ID = job.ID
	t0 := time.Now()
	defer func() {
		res.Ms = float64(time.Since(t0).Microseconds()) / 1000
		if r := recover(); r != nil {
			res.OK = false
			res.Panic = fmt.Sprintf("%v\n%s", r, topFrames(string(debug.Stack()), 12))
		}
	}()
	pipeline, err := verifapi.PipelineFromFile(job.YAML, verifapi.PipelineParameters(map[string]string{}))
	if err != nil {
		res.Err = "config: " + err.Error()
		return res
	}
	// the builder IR exactly as the jennies get it
	langs, err := pipeline.OutputLanguages()
	if err != nil {
		res.Err = "languages: " + err.Error()
		return res
	}
	schemas, err := pipeline.LoadSchemas(context.Background())
	if err != nil {
		res.Err = err.Error()
		return res
	}
	names := make([]string, 0, len(langs))
	for name := range langs {
		names = append(names, name)
	}
	sort.Strings(names)
	for _, name := range names {
		// ContextForLanguage runs compiler passes on the schemas it is given: hand it a private copy
		lctx, err := pipeline.ContextForLanguage(langs[name], schemas.DeepCopy())
		if err != nil {
			res.Err = "context " + name + ": " + err.Error()
			return res
		}
		raw, err := json.Marshal(J{"language": name, "builders": c09ProjBuilders(&lctx)})
		if err != nil {
			res.Err = "ir " + name + ": " + err.Error()
			return res
		}
		if err := os.WriteFile(filepath.Join(job.IR, job.ID+"."+name+".json"), raw, 0o644); err != nil {
			res.Err = "ir write: " + err.Error()
			return res
		}
		res.Languages = append(res.Languages, name)
	}
	fs, err := pipeline.Run(context.Background())
	if err != nil {
		res.Err = err.Error()
		return res
	}
	for _, f := range fs.AsFiles() {
		res.Files = append(res.Files, f.RelativePath)
	}
	sort.Strings(res.Files)
	if err := fs.Write(context.Background(), job.Root); err != nil {
		res.Err = "write: " + err.Error()
		return res
	}
	res.OK = true
	return res
}

func ndjsonLoop(name string, each func(raw []byte, enc *json.Encoder) error) int {
	in := bufio.NewScanner(os.Stdin)
	in.Buffer(make([]byte, 1<<20), 1<<28)
	out := bufio.NewWriter(os.Stdout)
	defer out.Flush()
	enc := json.NewEncoder(out)
	enc.SetEscapeHTML(false)
	for in.Scan() {
		if len(bytes.TrimSpace(in.Bytes())) == 0 {
			continue
		}
		if err := each(in.Bytes(), enc); err != nil {
			fmt.Fprintln(os.Stderr, name+": bad job:", err)
			return 2
		}
	}
	return 0
}

func c09Gen(args []string) int {
	return ndjsonLoop("c09-gen", func(raw []byte, enc *json.Encoder) error {
		var job c09GenJob
		if err := json.Unmarshal(raw, &job); err != nil {
			return err
		}
		return enc.Encode(c09GenOne(job))
	})
}

// ------------------------------------------------------------------------------------------------
// c09-glue
// ------------------------------------------------------------------------------------------------

type c09GlueJob struct {
	ID     string `json:"id"`
	Dir    string `json:"dir"`
	Pkg    string `json:"pkg"`
	Module string `json:"module"`
}

type glueMethod struct {
	Name   string   `json:"name"`
	Params []string `json:"params"`
}

type glueBuilder struct {
	Name      string       `json:"name"`   // RootBuilder without the suffix
	Object    string       `json:"object"` // text of the Build() result type
	CtorArgs  []string     `json:"ctor_args"`
	Options   []glueMethod `json:"options"`
	Converter bool         `json:"converter"`
}

type c09GlueResult struct {
	ID       string        `json:"id"`
	OK       bool          `json:"ok"`
	Err      string        `json:"err,omitempty"`
	Builders []glueBuilder `json:"builders"`
}

func exprText(fset *token.FileSet, e ast.Expr) string {
	var b bytes.Buffer
	_ = printer.Fprint(&b, fset, e)
	return b.String()
}

// isCogBuilder recognises cog.Builder[X] and returns X.
func isCogBuilder(e ast.Expr) (ast.Expr, bool) {
	ix, ok := e.(*ast.IndexExpr)
	if !ok {
		return nil, false
	}
	sel, ok := ix.X.(*ast.SelectorExpr)
	if !ok || sel.Sel.Name != "Builder" {
		return nil, false
	}
	if id, ok := sel.X.(*ast.Ident); !ok || id.Name != "cog" {
		return nil, false
	}
	return ix.Index, true
}

func hasBuilderInside(e ast.Expr) bool {
	found := false
	ast.Inspect(e, func(n ast.Node) bool {
		if x, ok := n.(ast.Expr); ok {
			if _, is := isCogBuilder(x); is {
				found = true
			}
		}
		return !found
	})
	return found
}

type glueGen struct {
	fset    *token.FileSet
	pkg     string
	decoded map[string]string // type text -> decoder function name
	funcs   []string
}

// decoder returns the name of a generated function `func(a verifreg.Arg) (T, error)` for the type expression.
func (g *glueGen) decoder(e ast.Expr) string {
	text := exprText(g.fset, e)
	if name, ok := g.decoded[text]; ok {
		return name
	}
	name := fmt.Sprintf("verifDec%d", len(g.decoded))
	g.decoded[text] = name
	var body string
	if inner, ok := isCogBuilder(e); ok {
		_ = inner
		body = fmt.Sprintf(`	if a.Builder == nil {
		return nil, fmt.Errorf("glue: builder plan expected for %%s", %q)
	}
	bb, err := verifreg.MakeBuilder(%q, *a.Builder)
	if err != nil {
		return nil, err
	}
	typed, ok := bb.(%s)
	if !ok {
		return nil, fmt.Errorf("glue: %%T is not a %%s", bb, %q)
	}
	return typed, nil
`, text, g.pkg, text, text)
	} else if arr, ok := e.(*ast.ArrayType); ok && arr.Len == nil && hasBuilderInside(arr.Elt) {
		sub := g.decoder(arr.Elt)
		body = fmt.Sprintf(`	if a.K != "list" {
		return nil, fmt.Errorf("glue: list plan expected for %%s", %q)
	}
	out := make(%s, 0, len(a.List))
	for _, x := range a.List {
		v, err := %s(x)
		if err != nil {
			return nil, err
		}
		out = append(out, v)
	}
	return out, nil
`, text, text, sub)
	} else if mp, ok := e.(*ast.MapType); ok && hasBuilderInside(mp.Value) {
		sub := g.decoder(mp.Value)
		body = fmt.Sprintf(`	if a.K != "map" {
		return nil, fmt.Errorf("glue: map plan expected for %%s", %q)
	}
	out := make(%s, len(a.Map))
	for _, kv := range a.Map {
		v, err := %s(kv.V)
		if err != nil {
			return nil, err
		}
		out[kv.K] = v
	}
	return out, nil
`, text, text, sub)
	} else {
		body = fmt.Sprintf(`	var v %s
	if a.K != "plain" {
		return v, fmt.Errorf("glue: plain argument expected for %%s", %q)
	}
	if err := verifreg.DecodePlain(a.Plain, &v); err != nil {
		return v, err
	}
	return v, nil
`, text, text)
	}
	g.funcs = append(g.funcs, fmt.Sprintf("func %s(a verifreg.Arg) (%s, error) {\n%s}\n", name, text, body))
	return name
}

func c09GlueOne(job c09GlueJob) (res c09GlueResult) {
	res.ID = job.ID
	defer func() {
		if r := recover(); r != nil {
			res.OK = false
			res.Err = fmt.Sprintf("panic: %v", r)
		}
	}()
	fset := token.NewFileSet()
	files, err := filepath.Glob(filepath.Join(job.Dir, "*_gen.go"))
	if err != nil {
		res.Err = err.Error()
		return res
	}
	sort.Strings(files)
	type bInfo struct {
		gb      glueBuilder
		ctor    []ast.Expr
		methods map[string][]ast.Expr
		order   []string
	}
	builders := map[string]*bInfo{}
	var names []string
	typeCtors := map[string]bool{}
	converters := map[string]string{} // function name -> input type text
	imports := map[string]string{}    // local name -> import path
	for _, f := range files {
		base := filepath.Base(f)
		if base == "verif_glue_gen.go" {
			continue
		}
		isBuilder := strings.HasSuffix(base, "_builder_gen.go")
		isConv := strings.HasSuffix(base, "_converter_gen.go")
		if !isBuilder && !isConv {
			// the types: remember the argument-less constructors New<T>() *T
			if af, err := parser.ParseFile(fset, f, nil, parser.SkipObjectResolution); err == nil {
				for _, d := range af.Decls {
					if fd, ok := d.(*ast.FuncDecl); ok && fd.Recv == nil && strings.HasPrefix(fd.Name.Name, "New") && len(fd.Type.Params.List) == 0 {
						typeCtors[fd.Name.Name] = true
					}
				}
			}
			continue
		}
		af, err := parser.ParseFile(fset, f, nil, parser.SkipObjectResolution)
		if err != nil {
			res.Err = "parse " + base + ": " + err.Error()
			return res
		}
		for _, im := range af.Imports {
			p := strings.Trim(im.Path.Value, `"`)
			local := filepath.Base(p)
			if im.Name != nil {
				local = im.Name.Name
			}
			imports[local] = p
		}
		for _, d := range af.Decls {
			fd, ok := d.(*ast.FuncDecl)
			if !ok {
				continue
			}
			params := func() []ast.Expr {
				var out []ast.Expr
				for _, p := range fd.Type.Params.List {
					n := len(p.Names)
					if n == 0 {
						n = 1
					}
					for i := 0; i < n; i++ {
						out = append(out, p.Type)
					}
				}
				return out
			}
			if isConv && fd.Recv == nil && strings.HasSuffix(fd.Name.Name, "Converter") && len(fd.Type.Params.List) == 1 {
				converters[fd.Name.Name] = exprText(fset, fd.Type.Params.List[0].Type)
				continue
			}
			if !isBuilder {
				continue
			}
			if fd.Recv == nil {
				// constructor: func New<X>Builder(args) *<X>Builder
				if strings.HasPrefix(fd.Name.Name, "New") && strings.HasSuffix(fd.Name.Name, "Builder") && fd.Type.Results != nil && len(fd.Type.Results.List) == 1 {
					rt := exprText(fset, fd.Type.Results.List[0].Type)
					if rt == "*"+strings.TrimPrefix(fd.Name.Name, "New") {
						n := strings.TrimSuffix(strings.TrimPrefix(fd.Name.Name, "New"), "Builder")
						bi := builders[n]
						if bi == nil {
							bi = &bInfo{methods: map[string][]ast.Expr{}}
							builders[n] = bi
							names = append(names, n)
						}
						bi.gb.Name = n
						bi.ctor = params()
					}
				}
				continue
			}
			if len(fd.Recv.List) != 1 {
				continue
			}
			star, ok := fd.Recv.List[0].Type.(*ast.StarExpr)
			if !ok {
				continue
			}
			rid, ok := star.X.(*ast.Ident)
			if !ok || !strings.HasSuffix(rid.Name, "Builder") {
				continue
			}
			n := strings.TrimSuffix(rid.Name, "Builder")
			bi := builders[n]
			if bi == nil {
				bi = &bInfo{methods: map[string][]ast.Expr{}}
				builders[n] = bi
				names = append(names, n)
			}
			if fd.Name.Name == "Build" {
				if fd.Type.Results != nil && len(fd.Type.Results.List) >= 1 {
					bi.gb.Object = exprText(fset, fd.Type.Results.List[0].Type)
				}
				continue
			}
			// an option returns the builder itself
			if fd.Type.Results == nil || len(fd.Type.Results.List) != 1 || exprText(fset, fd.Type.Results.List[0].Type) != "*"+rid.Name {
				continue
			}
			if !fd.Name.IsExported() {
				continue
			}
			bi.methods[fd.Name.Name] = params()
			bi.order = append(bi.order, fd.Name.Name)
		}
	}
	sort.Strings(names)
	g := &glueGen{fset: fset, pkg: job.Pkg, decoded: map[string]string{}}
	var reg bytes.Buffer
	for _, n := range names {
		bi := builders[n]
		if bi.gb.Name == "" || bi.gb.Object == "" {
			continue // not a complete builder (no constructor or no Build)
		}
		fmt.Fprintf(&reg, "\tverifreg.Register(%q, %q, &verifreg.Glue{\n", job.Pkg, n)
		// constructor
		fmt.Fprintf(&reg, "\t\tNArgs: %d,\n\t\tNew: func(args []verifreg.Arg) (any, error) {\n", len(bi.ctor))
		fmt.Fprintf(&reg, "\t\t\tif len(args) != %d {\n\t\t\t\treturn nil, fmt.Errorf(\"glue: New%sBuilder takes %d argument(s), got %%d\", len(args))\n\t\t\t}\n", len(bi.ctor), n, len(bi.ctor))
		var call []string
		for i, p := range bi.ctor {
			bi.gb.CtorArgs = append(bi.gb.CtorArgs, exprText(fset, p))
			fmt.Fprintf(&reg, "\t\t\ta%d, err := %s(args[%d])\n\t\t\tif err != nil {\n\t\t\t\treturn nil, err\n\t\t\t}\n", i, g.decoder(p), i)
			call = append(call, fmt.Sprintf("a%d", i))
		}
		fmt.Fprintf(&reg, "\t\t\treturn New%sBuilder(%s), nil\n\t\t},\n", n, strings.Join(call, ", "))
		// options
		fmt.Fprintf(&reg, "\t\tOpts: map[string]func(b any, args []verifreg.Arg) error{\n")
		for _, m := range bi.order {
			ps := bi.methods[m]
			gm := glueMethod{Name: m}
			fmt.Fprintf(&reg, "\t\t\t%q: func(b any, args []verifreg.Arg) error {\n", m)
			fmt.Fprintf(&reg, "\t\t\t\tif len(args) != %d {\n\t\t\t\t\treturn fmt.Errorf(\"glue: %s takes %d argument(s), got %%d\", len(args))\n\t\t\t\t}\n", len(ps), m, len(ps))
			var as []string
			for i, p := range ps {
				gm.Params = append(gm.Params, exprText(fset, p))
				fmt.Fprintf(&reg, "\t\t\t\ta%d, err := %s(args[%d])\n\t\t\t\tif err != nil {\n\t\t\t\t\treturn err\n\t\t\t\t}\n", i, g.decoder(p), i)
				as = append(as, fmt.Sprintf("a%d", i))
			}
			fmt.Fprintf(&reg, "\t\t\t\tb.(*%sBuilder).%s(%s)\n\t\t\t\treturn nil\n\t\t\t},\n", n, m, strings.Join(as, ", "))
			bi.gb.Options = append(bi.gb.Options, gm)
		}
		fmt.Fprintf(&reg, "\t\t},\n")
		fmt.Fprintf(&reg, "\t\tBuild: func(b any) (any, error) { return b.(*%sBuilder).Build() },\n", n)
		fmt.Fprintf(&reg, "\t\tPeek: func(b any) any { return b.(*%sBuilder).internal },\n", n)
		fmt.Fprintf(&reg, "\t\tErrs: func(b any) []string {\n\t\t\tout := []string{}\n\t\t\tfor k := range b.(*%sBuilder).errors {\n\t\t\t\tout = append(out, k)\n\t\t\t}\n\t\t\treturn out\n\t\t},\n", n)
		if typeCtors["New"+bi.gb.Object] {
			fmt.Fprintf(&reg, "\t\tDefault: func() any { return New%s() },\n", bi.gb.Object)
		}
		if in, ok := converters[n+"Converter"]; ok {
			bi.gb.Converter = true
			fmt.Fprintf(&reg, "\t\tConvert: func(raw []byte) (string, any, error) {\n\t\t\tvar v %s\n\t\t\tif err := json.Unmarshal(raw, &v); err != nil {\n\t\t\t\treturn \"\", nil, err\n\t\t\t}\n\t\t\treturn %sConverter(v), &v, nil\n\t\t},\n", in, n)
		}
		fmt.Fprintf(&reg, "\t})\n")
		res.Builders = append(res.Builders, bi.gb)
	}
	// imports the decoders' type texts need (time, other generated packages), plus the fixed ones
	all := strings.Join(g.funcs, "\n") + reg.String()
	var src bytes.Buffer
	fmt.Fprintf(&src, "// Code generated by the verification harness (c09-glue). Not part of cog's output.\n\npackage %s\n\nimport (\n", job.Pkg)
	fmt.Fprintf(&src, "\t\"encoding/json\"\n\t\"fmt\"\n\n\t\"%s/verifreg\"\n", job.Module)
	locals := make([]string, 0, len(imports))
	for l := range imports {
		locals = append(locals, l)
	}
	sort.Strings(locals)
	for _, l := range locals {
		if l == "fmt" || l == "json" || imports[l] == "encoding/json" {
			continue
		}
		if strings.Contains(all, l+".") {
			fmt.Fprintf(&src, "\t%s \"%s\"\n", l, imports[l])
		}
	}
	fmt.Fprintf(&src, ")\n\nvar _ = json.Marshal\nvar _ = fmt.Sprint\n\n%s\nfunc init() {\n%s}\n", strings.Join(g.funcs, "\n"), reg.String())
	if err := os.WriteFile(filepath.Join(job.Dir, "verif_glue_gen.go"), src.Bytes(), 0o644); err != nil {
		res.Err = err.Error()
		return res
	}
	res.OK = true
	return res
}

func c09Glue(args []string) int {
	return ndjsonLoop("c09-glue", func(raw []byte, enc *json.Encoder) error {
		var job c09GlueJob
		if err := json.Unmarshal(raw, &job); err != nil {
			return err
		}
		return enc.Encode(c09GlueOne(job))
	})
}

// ------------------------------------------------------------------------------------------------
// c14-parse
// ------------------------------------------------------------------------------------------------

type c14ParseJob struct {
	ID   string `json:"id"`
	Text string `json:"text"`
}

// chain: pkg.New<X>Builder(args...).Opt1(args...).Opt2(args...)
func parseChain(fset *token.FileSet, e ast.Expr) (J, bool) {
	var calls []J
	cur := e
	for {
		ce, ok := cur.(*ast.CallExpr)
		if !ok {
			return nil, false
		}
		sel, ok := ce.Fun.(*ast.SelectorExpr)
		if !ok {
			return nil, false
		}
		args := []any{}
		for _, a := range ce.Args {
			args = append(args, parseArg(fset, a))
		}
		if id, ok := sel.X.(*ast.Ident); ok {
			// root: pkg.New<X>Builder(...)
			if !strings.HasPrefix(sel.Sel.Name, "New") || !strings.HasSuffix(sel.Sel.Name, "Builder") {
				return nil, false
			}
			// calls were collected from the outside in
			for i, j := 0, len(calls)-1; i < j; i, j = i+1, j-1 {
				calls[i], calls[j] = calls[j], calls[i]
			}
			cs := make([]any, 0, len(calls))
			for _, c := range calls {
				cs = append(cs, c)
			}
			return J{"k": "chain", "pkg": id.Name, "builder": strings.TrimSuffix(strings.TrimPrefix(sel.Sel.Name, "New"), "Builder"),
				"ctor_args": args, "calls": cs}, true
		}
		calls = append(calls, J{"name": sel.Sel.Name, "args": args})
		cur = sel.X
	}
}

func parseArg(fset *token.FileSet, e ast.Expr) J {
	if ch, ok := parseChain(fset, e); ok {
		return ch
	}
	if cl, ok := e.(*ast.CompositeLit); ok {
		// []cog.Builder[T]{chain, ...} / map[string]cog.Builder[T]{"k": chain} / plain literals
		elts := []any{}
		nested := false
		for _, el := range cl.Elts {
			if kv, ok := el.(*ast.KeyValueExpr); ok {
				v := parseArg(fset, kv.Value)
				if v["k"] != "lit" {
					nested = true
				}
				elts = append(elts, J{"key": exprText(fset, kv.Key), "v": v})
			} else {
				v := parseArg(fset, el)
				if v["k"] != "lit" {
					nested = true
				}
				elts = append(elts, J{"key": "", "v": v})
			}
		}
		if nested {
			return J{"k": "composite", "type": exprText(fset, cl.Type), "elts": elts}
		}
	}
	return J{"k": "lit", "text": exprText(fset, e)}
}

func c14Parse(args []string) int {
	return ndjsonLoop("c14-parse", func(raw []byte, enc *json.Encoder) error {
		var job c14ParseJob
		if err := json.Unmarshal(raw, &job); err != nil {
			return err
		}
		fset := token.NewFileSet()
		e, err := parser.ParseExprFrom(fset, "expr.go", job.Text, 0)
		if err != nil {
			return enc.Encode(J{"id": job.ID, "ok": false, "err": err.Error()})
		}
		ch, ok := parseChain(fset, e)
		if !ok {
			return enc.Encode(J{"id": job.ID, "ok": false, "err": "not a builder call chain: " + firstLine(exprText(fset, e))})
		}
		return enc.Encode(J{"id": job.ID, "ok": true, "tree": ch})
	})
}
