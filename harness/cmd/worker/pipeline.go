package main

// Whole-pipeline runs for C03 (determinism) and C07 (independence, merge, immutability).
//
// One *run* = what `cog generate` and `cog inspect` do for a pipeline file:
//
//	generate:  codegen.PipelineFromFile(yaml, Parameters(..)).Run()            -> files
//	inspect:   a fresh pipeline, LoadSchemas() + ContextForLanguage(L) for the
//	           no-language view and every configured language, JSON-encoded    -> IR
//
// executed under one *schedule* of the map-order scheduler (overlay build): every
// `range` over a Go map in cog asks verifsched.Order for the key order; the
// schedule says, per dynamic occurrence, which permutation to use.

import (
	"bufio"
	"bytes"
	"context"
	"crypto/sha256"
	"encoding/hex"
	"encoding/json"
	"flag"
	"fmt"
	"os"
	"path/filepath"
	"runtime/debug"
	"sort"
	"strconv"
	"strings"
	"time"

	"github.com/grafana/codejen"
	"github.com/grafana/cog/verifapi"
)

func init() {
	commands["pipe-run"] = pipeRunCmd
	commands["c03-explore"] = c03Explore
	commands["c07-merge"] = c07Merge
	commands["c07-immut"] = c07Immut
	commands["sched-info"] = func([]string) int {
		fmt.Printf("{\"sched_available\":%v}\n", verifapi.SchedAvailable)
		return 0
	}
}

// watchdog: a run that does not return within VERIF_RUN_TIMEOUT seconds (default 90; a run takes 0.05-0.5 s) is
// reported by onTimeout and the process exits with code 3: the caller restarts the worker on the remaining jobs.
func watchdog(fn func(), onTimeout func()) {
	limit := 90
	if v, err := strconv.Atoi(os.Getenv("VERIF_RUN_TIMEOUT")); err == nil && v > 0 {
		limit = v
	}
	done := make(chan struct{})
	go func() {
		defer close(done)
		fn()
	}()
	select {
	case <-done:
	case <-time.After(time.Duration(limit) * time.Second):
		onTimeout()
		os.Exit(3)
	}
}

type pipeJob struct {
	ID      string            `json:"id"`
	Yaml    string            `json:"yaml"`
	Params  map[string]string `json:"params"`
	Inspect bool              `json:"inspect"`
	OutDir  string            `json:"outdir"` // prefix of generated paths up to the language directory ("out")
	Langs   []string          `json:"langs"`
	Pkgs    []string          `json:"pkgs"`
	// FinalPrefix: when set, codegen.Transforms.FinalPasses = [PrefixObjectNames{Prefix}] - the programmatic way of
	// configuring a name-changing transformation that runs at the end of EVERY language's chain
	FinalPrefix string `json:"final_prefix,omitempty"`
	// Again: call Run a second time on the same Pipeline value and record that file set too
	Again bool      `json:"again,omitempty"`
	Sched *schedule `json:"sched,omitempty"`
}

type schedule struct {
	Plan   map[string]int `json:"plan,omitempty"` // occurrence index -> code (see verifsched)
	Random uint64         `json:"random,omitempty"`
	Sites  []string       `json:"sites,omitempty"` // restrict Random to these sites
	// Reverse: every occurrence of these sites is reversed
	Reverse []string `json:"reverse,omitempty"`
}

func (s *schedule) String() string {
	if s == nil {
		return "baseline"
	}
	b, _ := json.Marshal(s)
	return string(b)
}

type occJSON struct {
	Site string `json:"site"`
	N    int    `json:"n"`
	Keys string `json:"keys,omitempty"`
}

type pipeResult struct {
	Err   string            `json:"err"`
	Files map[string]string `json:"files"` // path -> sha256
	IR    map[string]string `json:"ir"`    // view -> sha256
	Log   []occJSON         `json:"log,omitempty"`
	Calls int               `json:"calls"`

	// AgainDiffers: the second Run on the same Pipeline value gave other files than the first (or failed)
	AgainDiffers bool `json:"again_differs,omitempty"`

	content map[string][]byte
	irText  map[string][]byte
}

func sha(b []byte) string {
	h := sha256.Sum256(b)
	return hex.EncodeToString(h[:12])
}

func applySchedule(s *schedule) {
	verifapi.SchedReset()
	if s == nil {
		return
	}
	for k, v := range s.Plan {
		var i int
		fmt.Sscanf(k, "%d", &i)
		verifapi.SchedSet(i, v)
	}
	if len(s.Reverse) > 0 {
		verifapi.SchedSetReverseSites(s.Reverse)
	}
	if s.Random != 0 {
		verifapi.SchedSetRandom(s.Random)
		if len(s.Sites) > 0 {
			verifapi.SchedSetRandomSites(s.Sites)
		}
	}
}

type dummyLanguage struct{}

func (dummyLanguage) Name() string { return "dummy" }
func (dummyLanguage) Jennies(_ verifapi.LanguageConfig) *codejen.JennyList[verifapi.LanguageContext] {
	return nil
}
func (dummyLanguage) CompilerPasses() verifapi.Passes { return nil }

func loadPipeline(job *pipeJob) (*verifapi.Pipeline, error) {
	params := job.Params
	if params == nil {
		params = map[string]string{}
	}
	p, err := verifapi.PipelineFromFile(job.Yaml, verifapi.PipelineParameters(params))
	if err == nil && job.FinalPrefix != "" {
		p.Transforms.FinalPasses = verifapi.Passes{&verifapi.PrefixObjectNames{Prefix: job.FinalPrefix}}
	}
	return p, err
}

// runOnce executes generate (+ inspect) under the given schedule. keep: retain contents for diffs.
func runOnce(job *pipeJob, s *schedule, keep bool) (res *pipeResult) {
	res = &pipeResult{Files: map[string]string{}, IR: map[string]string{}}
	if keep {
		res.content = map[string][]byte{}
		res.irText = map[string][]byte{}
	}
	applySchedule(s)
	defer func() {
		if r := recover(); r != nil {
			res.Err = fmt.Sprintf("panic: %v", r)
			if os.Getenv("VERIF_DEBUG") != "" {
				res.Err += "\n" + string(debug.Stack())
			}
		}
		for _, o := range verifapi.SchedLog() {
			res.Log = append(res.Log, occJSON{Site: o.Site, N: o.N, Keys: o.Keys})
		}
		res.Calls = verifapi.SchedCalls()
	}()
	ctx := context.Background()

	// --- cog generate
	p, err := loadPipeline(job)
	if err != nil {
		res.Err = "config: " + err.Error()
		return res
	}
	fs, err := p.Run(ctx)
	if err != nil {
		res.Err = "run: " + pipeFirstLine(err.Error())
		return res
	}
	for _, f := range fs.AsFiles() {
		res.Files[f.RelativePath] = sha(f.Data)
		if keep {
			res.content[f.RelativePath] = f.Data
		}
	}
	if job.Again {
		// the same Pipeline value asked to generate a second time (library use; state kept on the pipeline, its cached
		// veneers rewriter, the passes' own fields ...): the second file set is one more observable of the run
		fs2, err2 := p.Run(ctx)
		h := "error: "
		if err2 == nil {
			again := map[string]string{}
			for _, f := range fs2.AsFiles() {
				again[f.RelativePath] = sha(f.Data)
			}
			h = hashMap(again)
			if h != hashMap(res.Files) {
				res.AgainDiffers = true
			}
		} else {
			h += pipeFirstLine(err2.Error())
			res.AgainDiffers = true
		}
		res.IR["generate-again"] = h
	}
	if !job.Inspect {
		return res
	}

	// --- cog inspect (no language, then every configured language)
	p2, err := loadPipeline(job)
	if err != nil {
		res.Err = "config: " + err.Error()
		return res
	}
	schemas, err := p2.LoadSchemas(ctx)
	if err != nil {
		res.Err = "inspect-load: " + pipeFirstLine(err.Error())
		return res
	}
	langs, err := p2.OutputLanguages()
	if err != nil {
		res.Err = "inspect-langs: " + pipeFirstLine(err.Error())
		return res
	}
	names := make([]string, 0, len(langs))
	for n := range langs {
		names = append(names, n)
	}
	sort.Strings(names)
	views := []struct {
		name string
		lang verifapi.Language
	}{{"inspect", dummyLanguage{}}}
	for _, n := range names {
		views = append(views, struct {
			name string
			lang verifapi.Language
		}{"inspect:" + n, langs[n]})
	}
	for _, v := range views {
		c, err := p2.ContextForLanguage(v.lang, schemas)
		if err != nil {
			res.Err = v.name + ": " + pipeFirstLine(err.Error())
			return res
		}
		b, err := json.Marshal(c)
		if err != nil {
			res.Err = v.name + ": json: " + err.Error()
			return res
		}
		res.IR[v.name] = sha(b)
		if keep {
			res.irText[v.name] = b
		}
		// cog inspect --ir converters (one builder at a time on the command line: all of them here)
		if nk, ok := v.lang.(interface {
			NullableKinds() verifapi.NullableConfig
		}); ok && len(c.Builders) > 0 {
			var convs []any
			for _, bld := range c.Builders {
				convs = append(convs, verifapi.NewConverterGenerator(nk.NullableKinds()).FromBuilder(c, bld))
			}
			cb, err := json.Marshal(convs)
			if err != nil {
				res.Err = v.name + ": converters json: " + err.Error()
				return res
			}
			res.IR["converters:"+strings.TrimPrefix(v.name, "inspect:")] = sha(cb)
			if keep {
				res.irText["converters:"+strings.TrimPrefix(v.name, "inspect:")] = cb
			}
		}
	}
	return res
}

func pipeFirstLine(s string) string {
	if os.Getenv("VERIF_DEBUG") != "" {
		return s
	}
	s = strings.ReplaceAll(strings.TrimSpace(s), "\n\t", " ")
	if i := strings.IndexByte(s, '\n'); i >= 0 {
		return s[:i]
	}
	return s
}

// langOf maps a generated path to the language directory it lives in: the first path segment that is the
// name of a configured language ("_shared" when there is none, e.g. repository-level templates).
func langOf(job *pipeJob, path string) string {
	for _, seg := range strings.Split(filepath.ToSlash(path), "/") {
		for _, l := range job.Langs {
			if l == seg {
				return l
			}
		}
	}
	return "_shared"
}

// pkgOf: the package a generated file is specific to ("" for shared runtime / index / registry files): a path
// segment equal to the package name (any letter case) or a file name whose first dot-separated part is the package.
func pkgOf(job *pipeJob, path string) string {
	segs := strings.Split(filepath.ToSlash(path), "/")
	match := func(eq func(a, b string) bool) string {
		for i, seg := range segs {
			for _, p := range job.Pkgs {
				if eq(seg, p) {
					return p
				}
				if i == len(segs)-1 {
					if head, _, ok := strings.Cut(seg, "."); ok && eq(head, p) {
						return p
					}
				}
			}
		}
		return ""
	}
	// the exact spelling first (packages may differ by letter case only), then any letter case (PHP, Java ... re-case directories)
	if p := match(func(a, b string) bool { return a == b }); p != "" {
		return p
	}
	return match(strings.EqualFold)
}

func filesByLang(job *pipeJob, files map[string]string) map[string]map[string]string {
	out := map[string]map[string]string{}
	for p, h := range files {
		l := langOf(job, p)
		if out[l] == nil {
			out[l] = map[string]string{}
		}
		out[l][p] = h
	}
	return out
}

func hashMap(m map[string]string) string {
	keys := make([]string, 0, len(m))
	for k := range m {
		keys = append(keys, k)
	}
	sort.Strings(keys)
	var b bytes.Buffer
	for _, k := range keys {
		b.WriteString(k)
		b.WriteByte(0)
		b.WriteString(m[k])
		b.WriteByte(0)
	}
	return sha(b.Bytes())
}

// outcome is the comparable summary of one run.
type outcome struct {
	Err   bool              `json:"err"`
	Files map[string]string `json:"files"` // lang -> hash of its (path, sha) map
	IR    map[string]string `json:"ir"`
	NFile int               `json:"nfiles"`
	// PkgFiles: lang -> package -> hash of the files specific to that package (pkgOf); "" collects the shared ones
	PkgFiles map[string]map[string]string `json:"pkgfiles,omitempty"`
}

func outcomeOf(job *pipeJob, r *pipeResult) outcome {
	o := outcome{Err: r.Err != "", Files: map[string]string{}, IR: map[string]string{}, NFile: len(r.Files)}
	for l, m := range filesByLang(job, r.Files) {
		o.Files[l] = hashMap(m)
	}
	for k, v := range r.IR {
		o.IR[k] = v
	}
	if len(job.Pkgs) > 0 {
		o.PkgFiles = map[string]map[string]string{}
		per := map[string]map[string]map[string]string{}
		for p, h := range r.Files {
			l, k := langOf(job, p), pkgOf(job, p)
			if per[l] == nil {
				per[l] = map[string]map[string]string{}
			}
			if per[l][k] == nil {
				per[l][k] = map[string]string{}
			}
			per[l][k][p] = h
		}
		for l, m := range per {
			o.PkgFiles[l] = map[string]string{}
			for k, files := range m {
				o.PkgFiles[l][k] = hashMap(files)
			}
		}
	}
	return o
}

func (o outcome) key() string {
	b, _ := json.Marshal(o)
	return string(b)
}

// pipeDiffClasses compares a run with the baseline. Classes: "ir" when any inspect view differs (file
// differences are then its consequence), otherwise "files" (the language directories are listed in the
// detail), "error" when exactly one of the two failed.
func pipeDiffClasses(job *pipeJob, base, other *pipeResult) (classes []string, detail map[string]any) {
	detail = map[string]any{}
	if (base.Err != "") != (other.Err != "") {
		detail["baseline_err"] = base.Err
		detail["other_err"] = other.Err
		return []string{"error"}, detail
	}
	if base.Err != "" {
		return nil, detail // both failed: no files either way
	}
	var irViews []string
	for k, v := range base.IR {
		if other.IR[k] != v {
			irViews = append(irViews, k)
		}
	}
	for k := range other.IR {
		if _, ok := base.IR[k]; !ok {
			irViews = append(irViews, k)
		}
	}
	sort.Strings(irViews)
	var paths []string
	for p, h := range base.Files {
		if other.Files[p] != h {
			paths = append(paths, p)
		}
	}
	for p := range other.Files {
		if _, ok := base.Files[p]; !ok {
			paths = append(paths, p)
		}
	}
	sort.Strings(paths)
	if len(irViews) == 0 && len(paths) == 0 {
		return nil, detail
	}
	detail["ir_views"] = irViews
	detail["paths"] = truncStrings(paths, 12)
	detail["npaths"] = len(paths)
	if len(irViews) > 0 {
		classes = append(classes, "ir")
		if base.irText != nil && other.irText != nil {
			detail["first_difference"] = pipeFirstDiff(base.irText[irViews[0]], other.irText[irViews[0]])
		}
	} else {
		langs := map[string]bool{}
		for _, p := range paths {
			langs[langOf(job, p)] = true
		}
		// one class whatever languages the pipeline happens to configure (the site names the jenny when it is one)
		classes = append(classes, "files")
		ls := []string{}
		for l := range langs {
			ls = append(ls, l)
		}
		sort.Strings(ls)
		detail["languages"] = ls
		if base.content != nil && other.content != nil {
			detail["first_difference"] = pipeFirstDiff(base.content[paths[0]], other.content[paths[0]])
		}
	}
	return classes, detail
}

func pipeContains(l []string, x string) bool {
	for _, y := range l {
		if x == y {
			return true
		}
	}
	return false
}

func truncStrings(s []string, n int) []string {
	if len(s) > n {
		return append(append([]string{}, s[:n]...), fmt.Sprintf("... (%d more)", len(s)-n))
	}
	return s
}

func pipeFirstDiff(a, b []byte) map[string]string {
	i := 0
	for i < len(a) && i < len(b) && a[i] == b[i] {
		i++
	}
	lo := i - 60
	if lo < 0 {
		lo = 0
	}
	cut := func(x []byte) string {
		hi := i + 100
		if hi > len(x) {
			hi = len(x)
		}
		if lo > len(x) {
			return ""
		}
		return string(x[lo:hi])
	}
	return map[string]string{"baseline": cut(a), "other": cut(b)}
}

// ---------------------------------------------------------------------------------- pipe-run

// pipeRunCmd: one job per stdin line, one result per stdout line (files and IR hashes, log).
func pipeRunCmd(args []string) int {
	fl := flag.NewFlagSet("pipe-run", flag.ExitOnError)
	full := fl.Bool("full", false, "print per-path hashes (default: per-language hashes only)")
	_ = fl.Parse(args)
	in := bufio.NewScanner(os.Stdin)
	in.Buffer(make([]byte, 1<<20), 1<<28)
	out := bufio.NewWriter(os.Stdout)
	defer out.Flush()
	for in.Scan() {
		if len(bytes.TrimSpace(in.Bytes())) == 0 {
			continue
		}
		var job pipeJob
		if err := json.Unmarshal(in.Bytes(), &job); err != nil {
			fmt.Fprintln(os.Stderr, "bad job:", err)
			return 2
		}
		watchdog(func() {
			r := runOnce(&job, job.Sched, false)
			o := outcomeOf(&job, r)
			rec := J{"id": job.ID, "err": r.Err, "outcome": o, "occurrences": len(r.Log), "calls": r.Calls, "sched": job.Sched.String()}
			if *full {
				rec["files"] = r.Files
				rec["log"] = r.Log
			}
			b, _ := json.Marshal(rec)
			out.Write(b)
			out.WriteByte('\n')
		}, func() {
			b, _ := json.Marshal(J{"id": job.ID, "err": "timeout: the run did not return", "timeout": true,
				"outcome": outcome{Err: true, Files: map[string]string{}, IR: map[string]string{}}, "files": J{}, "sched": job.Sched.String()})
			out.Write(b)
			out.WriteByte('\n')
			out.Flush()
		})
	}
	return 0
}

// ---------------------------------------------------------------------------------- c03-explore

type explorer struct {
	seed      uint64
	nRandom   int
	perSite   int // occurrences per (site, N) and job explored one by one
	rotCap    int // rotations tried per occurrence with more than 3 keys (besides reversal)
	out       *bufio.Writer
	runs      int
	permuted  int
	sitesSeen map[string]int
}

type finding struct {
	Job     string         `json:"job"`
	Site    string         `json:"site"`
	Class   string         `json:"class"`
	Sched   *schedule      `json:"sched"`
	Keys    string         `json:"keys"`
	Detail  map[string]any `json:"detail"`
	Mode    string         `json:"mode"`
	Confirm bool           `json:"confirmed"`
}

func (e *explorer) emit(v any) {
	b, _ := json.Marshal(v)
	e.out.Write(b)
	e.out.WriteByte('\n')
}

func codesFor(n, rotCap int) []int {
	switch {
	case n == 2:
		return []int{-1}
	case n == 3:
		return []int{1001, 1002, 1003, 1004, 1005} // all non-identity permutations
	}
	codes := []int{-1}
	rots := []int{}
	for r := 1; r < n; r++ {
		rots = append(rots, r)
	}
	if len(rots) > rotCap {
		// spread: first, last, middle, then evenly
		pick := map[int]bool{1: true, n - 1: true, n / 2: true}
		for i := 1; len(pick) < rotCap && i < n; i += (n + rotCap - 1) / rotCap {
			pick[i] = true
		}
		rots = rots[:0]
		for r := range pick {
			rots = append(rots, r)
		}
		sort.Ints(rots)
	}
	return append(codes, rots...)
}

// run: one real run under the per-run watchdog
func (e *explorer) run(job *pipeJob, sc *schedule, keep bool) (res *pipeResult) {
	watchdog(func() { res = runOnce(job, sc, keep) }, func() {
		e.emit(J{"kind": "timeout", "job": job.ID, "sched": sc.String()})
		e.emit(J{"kind": "total", "runs": e.runs, "permuted_occurrences": e.permuted, "sites_seen": e.sitesSeen})
		e.out.Flush()
	})
	return res
}

func (e *explorer) job(job *pipeJob) {
	base := e.run(job, nil, true)
	e.runs++
	// the second baseline also asks the SAME Pipeline value to generate twice
	jobAgain := *job
	jobAgain.Again = true
	again := e.run(&jobAgain, nil, false)
	e.runs++
	againDiffers, againHash := again.AgainDiffers, again.IR["generate-again"]
	delete(again.IR, "generate-again")
	outcomes := map[string]int{}
	baseOut := outcomeOf(job, base)
	outcomes[baseOut.key()]++
	summary := J{"kind": "job", "job": job.ID, "err": base.Err, "occurrences": len(base.Log), "calls": base.Calls,
		"nfiles": len(base.Files), "views": len(base.IR)}
	if againDiffers {
		e.emit(finding{Job: job.ID, Site: "same-pipeline-twice", Class: "files", Sched: nil, Mode: "second-run-on-the-same-pipeline", Confirm: true,
			Detail: map[string]any{"first_difference": "calling Run twice on one Pipeline value gives two different file sets (" + againHash + ")"}})
	}
	if cl, det := pipeDiffClasses(job, base, again); len(cl) > 0 {
		// the same schedule gave two different results: nondeterminism outside the scheduler's control
		for _, c := range cl {
			e.emit(finding{Job: job.ID, Site: "unscheduled", Class: c, Sched: nil, Detail: det, Mode: "same-schedule-twice", Confirm: true})
		}
		outcomes[outcomeOf(job, again).key()]++
	}
	siteCount := map[string]int{}
	for _, o := range base.Log {
		siteCount[o.Site]++
		e.sitesSeen[o.Site]++
	}
	permutedHere := 0
	reported := map[string]bool{}
	try := func(s *schedule, site, keys, mode string) bool {
		r := e.run(job, s, true)
		e.runs++
		outcomes[outcomeOf(job, r).key()]++
		cl, det := pipeDiffClasses(job, base, r)
		if len(cl) == 0 {
			return false
		}
		// confirm: the same schedule again must reproduce the difference, the baseline again must not
		r2 := e.run(job, s, false)
		b2 := e.run(job, nil, false)
		e.runs += 2
		cl2, _ := pipeDiffClasses(job, base, r2)
		cl3, _ := pipeDiffClasses(job, base, b2)
		confirmed := len(cl2) > 0 && len(cl3) == 0
		if mode == "single-occurrence" && s != nil && len(s.Plan) == 1 && !pipeContains(cl, "ir") && !pipeContains(cl, "error") {
			// one occurrence only touched the generate phase or one inspect view. Does this SITE feed the IR? Apply the
			// same permutation to every occurrence of the site (generate and inspect phases alike) and look at the IR.
			var code int
			for _, c := range s.Plan {
				code = c
			}
			plan := map[string]int{}
			for i, o := range base.Log {
				if o.Site == site {
					plan[fmt.Sprint(i)] = code
				}
			}
			rw := e.run(job, &schedule{Plan: plan}, false)
			e.runs++
			if clw, _ := pipeDiffClasses(job, base, rw); pipeContains(clw, "ir") {
				cl = []string{"ir"}
				det["note"] = "classified ir: permuting every occurrence of this site changes the cog inspect views"
			}
		}
		for _, c := range cl {
			k := site + "|" + c
			if reported[k] {
				continue
			}
			reported[k] = true
			e.emit(finding{Job: job.ID, Site: site, Class: c, Sched: s, Keys: keys, Detail: det, Mode: mode, Confirm: confirmed})
		}
		return true
	}
	// (1) every dynamic occurrence alone. Occurrences that repeat the same (site, key set) are sampled: perSite of
	// them, spread evenly over the run (offset by the seed); the rest is covered by (2) and (3).
	skipped := 0
	byKey := map[string][]int{}
	for i, o := range base.Log {
		k := fmt.Sprintf("%s|%d|%s", o.Site, o.N, o.Keys)
		byKey[k] = append(byKey[k], i)
	}
	chosen := map[int]bool{}
	for _, idxs := range byKey {
		if len(idxs) <= e.perSite {
			for _, i := range idxs {
				chosen[i] = true
			}
			continue
		}
		for j := 0; j < e.perSite; j++ {
			pos := (j*len(idxs)/e.perSite + int(e.seed)) % len(idxs)
			chosen[idxs[pos]] = true
		}
	}
	for i, o := range base.Log {
		if !chosen[i] {
			skipped++
			continue
		}
		permutedHere++
		for _, code := range codesFor(o.N, e.rotCap) {
			try(&schedule{Plan: map[string]int{fmt.Sprint(i): code}}, o.Site, o.Keys, "single-occurrence")
		}
	}
	// (2) all occurrences of one site reversed together (covers the occurrences skipped above)
	sites := make([]string, 0, len(siteCount))
	for s := range siteCount {
		sites = append(sites, s)
	}
	sort.Strings(sites)
	for _, s := range sites {
		if siteCount[s] < 2 {
			continue
		}
		plan := map[string]int{}
		for i, o := range base.Log {
			if o.Site == s {
				plan[fmt.Sprint(i)] = -1
			}
		}
		try(&schedule{Plan: plan}, s, "", "whole-site-reversed")
	}
	// (3) random full schedules; a difference is attributed by re-running with the randomness restricted to one site
	for j := 0; j < e.nRandom; j++ {
		seed := e.seed*1000003 + uint64(j)*7919 + 1
		full := &schedule{Random: seed}
		r := e.run(job, full, true)
		e.runs++
		outcomes[outcomeOf(job, r).key()]++
		cl, det := pipeDiffClasses(job, base, r)
		if len(cl) == 0 {
			continue
		}
		// attribution: a class already reported for a single site of this job explains the difference; otherwise try
		// the randomness restricted to one site at a time (three seeds); what is left needs several sites at once
		explained := true
		for _, c := range cl {
			found := false
			for k := range reported {
				if strings.HasSuffix(k, "|"+c) || (c == "files" && strings.HasSuffix(k, "|ir")) {
					found = true
				}
			}
			explained = explained && found
		}
		if explained {
			continue
		}
		attributed := false
		for _, s := range sites {
			for t := uint64(0); t < 3 && !attributed; t++ {
				if try(&schedule{Random: seed + t, Sites: []string{s}}, s, "", "random-restricted-to-site") {
					attributed = true
				}
			}
		}
		if !attributed {
			for _, c := range cl {
				if !reported["multi|"+c] {
					reported["multi|"+c] = true
					e.emit(finding{Job: job.ID, Site: "several-sites", Class: c, Sched: full, Detail: det, Mode: "random-full", Confirm: true})
				}
			}
		}
	}
	e.permuted += permutedHere
	summary["permuted_occurrences"] = permutedHere
	summary["skipped_repeats"] = skipped
	summary["distinct_outcomes"] = len(outcomes)
	summary["sites"] = siteCount
	recs := []J{}
	for k, n := range outcomes {
		var o outcome
		_ = json.Unmarshal([]byte(k), &o)
		recs = append(recs, J{"nsched": n, "outcome": o})
	}
	sort.Slice(recs, func(i, j int) bool { return recs[i]["nsched"].(int) > recs[j]["nsched"].(int) })
	summary["records"] = recs
	e.emit(summary)
}

func c03Explore(args []string) int {
	fl := flag.NewFlagSet("c03-explore", flag.ExitOnError)
	seed := fl.Uint64("seed", 1, "seed for the random full schedules")
	nRandom := fl.Int("random", 4, "random full schedules per job")
	perSite := fl.Int("per-site", 3, "identical (site, key set) occurrences explored one by one per job")
	rotCap := fl.Int("rot-cap", 3, "rotations per occurrence with more than three keys")
	_ = fl.Parse(args)
	if !verifapi.SchedAvailable {
		fmt.Fprintln(os.Stderr, "c03-explore needs the scheduler overlay")
		return 2
	}
	e := &explorer{seed: *seed, nRandom: *nRandom, perSite: *perSite, rotCap: *rotCap, out: bufio.NewWriter(os.Stdout), sitesSeen: map[string]int{}}
	defer e.out.Flush()
	in := bufio.NewScanner(os.Stdin)
	in.Buffer(make([]byte, 1<<20), 1<<28)
	for in.Scan() {
		if len(bytes.TrimSpace(in.Bytes())) == 0 {
			continue
		}
		var job pipeJob
		if err := json.Unmarshal(in.Bytes(), &job); err != nil {
			fmt.Fprintln(os.Stderr, "bad job:", err)
			return 2
		}
		e.job(&job)
	}
	e.emit(J{"kind": "total", "runs": e.runs, "permuted_occurrences": e.permuted, "sites_seen": e.sitesSeen})
	return 0
}

// ---------------------------------------------------------------------------------- c07-merge

// c07Merge: for each job {id, parts: [yaml...], whole: yaml} load every part alone and the whole
// pipeline; print per package the (object name -> sha of its JSON) maps so the oracle can compare
// the merge object by object.
func c07Merge(args []string) int {
	in := bufio.NewScanner(os.Stdin)
	in.Buffer(make([]byte, 1<<20), 1<<28)
	out := bufio.NewWriter(os.Stdout)
	defer out.Flush()
	type mergeJob struct {
		ID    string   `json:"id"`
		Parts []string `json:"parts"`
		Whole string   `json:"whole"`
	}
	load := func(yaml string) (J, string) {
		verifapi.SchedReset()
		var res J
		var errs string
		func() {
			defer func() {
				if r := recover(); r != nil {
					errs = fmt.Sprintf("panic: %v", r)
				}
			}()
			p, err := verifapi.PipelineFromFile(yaml, verifapi.PipelineParameters(map[string]string{}))
			if err != nil {
				errs = "config: " + err.Error()
				return
			}
			schemas, err := p.LoadSchemas(context.Background())
			if err != nil {
				errs = pipeFirstLine(err.Error())
				return
			}
			res = J{}
			for _, s := range schemas {
				objs := J{}
				s.Objects.Iterate(func(name string, o verifapi.Object) {
					b, _ := json.Marshal(o)
					objs[name] = sha(b)
				})
				if _, dup := res[s.Package]; dup {
					errs = "package listed twice after consolidation: " + s.Package
				}
				meta, _ := json.Marshal(s.Metadata)
				res[s.Package] = J{"objects": objs, "entry": s.EntryPoint, "meta": string(meta)}
			}
		}()
		return res, errs
	}
	for in.Scan() {
		if len(bytes.TrimSpace(in.Bytes())) == 0 {
			continue
		}
		var job mergeJob
		if err := json.Unmarshal(in.Bytes(), &job); err != nil {
			fmt.Fprintln(os.Stderr, "bad job:", err)
			return 2
		}
		watchdog(func() {
			parts := []any{}
			for _, y := range job.Parts {
				r, e := load(y)
				parts = append(parts, J{"packages": r, "err": e})
			}
			w, e := load(job.Whole)
			b, _ := json.Marshal(J{"id": job.ID, "parts": parts, "whole": J{"packages": w, "err": e}})
			out.Write(b)
			out.WriteByte('\n')
		}, func() {
			b, _ := json.Marshal(J{"id": job.ID, "timeout": true, "parts": []any{}, "whole": J{"packages": J{}, "err": "timeout: the load did not return"}})
			out.Write(b)
			out.WriteByte('\n')
			out.Flush()
		})
	}
	return 0
}

// ---------------------------------------------------------------------------------- c07-immut

// c07Immut: "applying a transformation chain never modifies the schemas it was handed".
// For each job: schemas := LoadSchemas(); snapshot; then every chain the pipeline applies to the
// shared schemas, each followed by a snapshot comparison:
//
//	per language L: ContextForLanguage(L, schemas)   (language passes ++ final, builders, veneers, nil checks)
//	                L.Jennies(cfg).GenerateFS(ctx)   (the jennies get the per-language copy; the shared schemas must stay)
//	explicit chains: yaml compiler passes files -> Passes.Process(schemas), twice; the passes' own
//	                parameters are snapshotted too (they are shared between calls), and both results compared.
func c07Immut(args []string) int {
	in := bufio.NewScanner(os.Stdin)
	in.Buffer(make([]byte, 1<<20), 1<<28)
	out := bufio.NewWriter(os.Stdout)
	defer out.Flush()
	type immutJob struct {
		ID          string    `json:"id"`
		Yaml        string    `json:"yaml"`
		Chains      []string  `json:"chains"` // compiler passes files applied as explicit chains
		FinalPrefix string    `json:"final_prefix,omitempty"`
		Sched       *schedule `json:"sched,omitempty"`
	}
	for in.Scan() {
		if len(bytes.TrimSpace(in.Bytes())) == 0 {
			continue
		}
		var job immutJob
		if err := json.Unmarshal(in.Bytes(), &job); err != nil {
			fmt.Fprintln(os.Stderr, "bad job:", err)
			return 2
		}
		rec := J{"id": job.ID}
		steps := []any{}
		watchdog(func() {
			defer func() {
				if r := recover(); r != nil {
					rec["err"] = fmt.Sprintf("panic: %v", r)
				}
			}()
			applySchedule(job.Sched)
			ctx := context.Background()
			p, err := verifapi.PipelineFromFile(job.Yaml, verifapi.PipelineParameters(map[string]string{}))
			if err != nil {
				rec["err"] = "config: " + err.Error()
				return
			}
			if job.FinalPrefix != "" {
				p.Transforms.FinalPasses = verifapi.Passes{&verifapi.PrefixObjectNames{Prefix: job.FinalPrefix}}
			}
			schemas, err := p.LoadSchemas(ctx)
			if err != nil {
				rec["err"] = "load: " + pipeFirstLine(err.Error())
				return
			}
			snap := func() []byte { b, _ := json.Marshal(schemas); return b }
			ptrs := func() string { return fmt.Sprintf("%p/%d", schemas, len(schemas)) }
			before := snap()
			p0 := ptrs()
			rec["snapshot"] = sha(before)
			rec["objects"] = countObjects(schemas)
			check := func(step string, extra J) {
				after := snap()
				s := J{"step": step, "before": sha(before), "after": sha(after), "same": bytes.Equal(before, after) && p0 == ptrs()}
				if !bytes.Equal(before, after) {
					s["first_difference"] = pipeFirstDiff(before, after)
				}
				for k, v := range extra {
					s[k] = v
				}
				steps = append(steps, s)
				// judge the next chain against what it is handed, not against what an earlier offender left behind
				before = after
			}
			langs, err := p.OutputLanguages()
			if err != nil {
				rec["err"] = err.Error()
				return
			}
			names := make([]string, 0, len(langs))
			for n := range langs {
				names = append(names, n)
			}
			sort.Strings(names)
			cfg := verifapi.LanguageConfig{Debug: p.Debug, Types: p.Output.Types, Builders: p.Output.Builders,
				Converters: p.Output.Converters, APIReference: p.Output.APIReference}
			for _, n := range names {
				c, err := p.ContextForLanguage(langs[n], schemas)
				if err != nil {
					check("context:"+n, J{"err": pipeFirstLine(err.Error())})
					continue
				}
				check("context:"+n, nil)
				// the builder transformations (veneers) are handed the language's schemas and the derived builders: they may
				// only change the builders. Replayed here step by step, as ContextForLanguage does it.
				if p.Output.Builders && len(p.Transforms.VeneersDirectories) > 0 {
					var files []string
					for _, dir := range p.Transforms.VeneersDirectories {
						m, _ := filepath.Glob(filepath.Join(dir, "*.yaml"))
						files = append(files, m...)
					}
					rewriter, rerr := verifapi.NewVeneersLoader().RewriterFrom(files, verifapi.RewriteConfig{})
					own, perr := langs[n].CompilerPasses().Concat(p.Transforms.FinalPasses).Process(schemas)
					if rerr == nil && perr == nil {
						builders := (&verifapi.BuilderGenerator{}).FromAST(own)
						vb, _ := json.Marshal(own)
						_, aerr := rewriter.ApplyTo(own, builders, langs[n].Name())
						va, _ := json.Marshal(own)
						st := J{"step": "veneers:" + n, "before": sha(vb), "after": sha(va), "same": bytes.Equal(vb, va), "err": errStr(aerr)}
						if !bytes.Equal(vb, va) {
							st["first_difference"] = pipeFirstDiff(vb, va)
						}
						steps = append(steps, st)
					}
				}
				ctxBefore, _ := json.Marshal(c.Schemas)
				_, err = langs[n].Jennies(cfg).GenerateFS(c)
				e := ""
				if err != nil {
					e = pipeFirstLine(err.Error())
				}
				ctxAfter, _ := json.Marshal(c.Schemas)
				check("jennies:"+n, J{"err": e, "language_copy_same": bytes.Equal(ctxBefore, ctxAfter)})
			}
			for _, chain := range job.Chains {
				passes, err := verifapi.NewCompilerLoader().PassesFrom([]string{chain})
				if err != nil {
					check("chain:"+filepath.Base(chain), J{"err": "load: " + pipeFirstLine(err.Error())})
					continue
				}
				pb := dumpPasses(passes)
				r1, err1 := passes.Process(schemas)
				pa := dumpPasses(passes)
				r2, err2 := passes.Process(schemas)
				j1, _ := json.Marshal(r1)
				j2, _ := json.Marshal(r2)
				changed := !bytes.Equal(j1, before)
				check("chain:"+filepath.Base(chain), J{"params_same": pb == pa, "repeatable": bytes.Equal(j1, j2) && (err1 == nil) == (err2 == nil),
					"err": errStr(err1), "chain_changed_result": changed})
			}
		}, func() {
			rec["err"] = "timeout: a transformation chain did not return"
			rec["timeout"] = true
			rec["steps"] = steps
			b, _ := json.Marshal(rec)
			out.Write(b)
			out.WriteByte('\n')
			out.Flush()
		})
		rec["steps"] = steps
		b, _ := json.Marshal(rec)
		out.Write(b)
		out.WriteByte('\n')
	}
	return 0
}

func errStr(e error) string {
	if e == nil {
		return ""
	}
	return pipeFirstLine(e.Error())
}

func countObjects(s verifapi.Schemas) int {
	n := 0
	for _, x := range s {
		n += x.Objects.Len()
	}
	return n
}

// dumpPasses renders the passes with their parameters (exported fields, recursively, through JSON;
// %#v as a fallback for what JSON cannot encode such as maps keyed by structs).
func dumpPasses(p verifapi.Passes) string {
	var b strings.Builder
	for _, x := range p {
		j, err := json.Marshal(x)
		if err != nil {
			fmt.Fprintf(&b, "%T %+v\n", x, x)
			continue
		}
		fmt.Fprintf(&b, "%T %s\n", x, j)
	}
	return b.String()
}
