package main

// Projection between cog's ast.Schemas and the abstract IR of spec/IR.tla.
// The JSON form is what TLC prints (ToJson) and reads (ndJsonDeserialize):
// no null, every record of a kind has the same fields, integers only.
//
// Type      {"k":kind, "nullable":b, "def":V, "hints":[{"key":s,"val":V}], ...kind fields}
//   scalar    sk, val:V, cons:[{"op":s,"args":[V]}]
//   ref       pkg, name
//   constref  pkg, name, val:V
//   array     elem:T
//   map       idx:T, elem:T
//   struct    fields:[{"name","type":T,"required":b,"comments":[s]}]
//   enum      members:[{"name","val":V,"sk"}]
//   disj      branches:[T], discr:s, mapping:[{"key","to"}] (sorted by key)
//   inter     branches:[T]
//   slot      variant:s
//   none      (the zero Type, e.g. an unset EntryPointType)
// V         {"t": dynamic Go type ("nil" when absent), "s": canonical text}
// Object    {"name","comments":[s],"type":T,"selfpkg","selfname"}
// Schema    {"pkg","meta":{"kind","variant","id"},"entry","entrytype":T,"objects":[Object]}
//
// PassesTrail/VeneerTrail are not part of the abstract state (no property mentions them).

import (
	"encoding/json"
	"fmt"
	"sort"
	"strconv"

	"github.com/grafana/cog/verifapi"
)

type J = map[string]any

func projVal(v any) J {
	if v == nil {
		return J{"t": "nil", "s": ""}
	}
	switch x := v.(type) {
	case string:
		return J{"t": "string", "s": x}
	case bool:
		return J{"t": "bool", "s": strconv.FormatBool(x)}
	case verifapi.DisjunctionType:
		// hint values carrying a former disjunction: keep the reference-bearing parts readable
		return J{"t": "ast.DisjunctionType", "s": "", "type": projType(verifapi.Type{Kind: "disjunction", Disjunction: &x})}
	}
	raw, err := json.Marshal(v)
	if err != nil {
		return J{"t": fmt.Sprintf("%T", v), "s": fmt.Sprintf("%#v", v)}
	}
	return J{"t": fmt.Sprintf("%T", v), "s": string(raw)}
}

func unprojVal(j J) (any, error) {
	t, _ := j["t"].(string)
	s, _ := j["s"].(string)
	switch t {
	case "nil", "":
		return nil, nil
	case "string":
		return s, nil
	case "bool":
		return s == "true", nil
	case "int64":
		n, err := strconv.ParseInt(s, 10, 64)
		return n, err
	case "int":
		n, err := strconv.Atoi(s)
		return n, err
	case "float64":
		f, err := strconv.ParseFloat(s, 64)
		return f, err
	case "json.Number":
		var n json.Number
		err := json.Unmarshal([]byte(s), &n)
		return n, err
	case "ast.DisjunctionType":
		t, err := unprojType(jmap(j["type"]))
		if err != nil || t.Disjunction == nil {
			return nil, fmt.Errorf("unproject: bad disjunction hint: %v", err)
		}
		return *t.Disjunction, nil
	case "[]interface {}":
		var l []any
		err := json.Unmarshal([]byte(s), &l)
		return l, err
	case "map[string]interface {}":
		var m map[string]any
		err := json.Unmarshal([]byte(s), &m)
		return m, err
	}
	return nil, fmt.Errorf("unproject: unsupported value type %q", t)
}

func projHints(h verifapi.JenniesHints) []any {
	keys := make([]string, 0, len(h))
	for k := range h {
		keys = append(keys, k)
	}
	sort.Strings(keys)
	out := make([]any, 0, len(keys))
	for _, k := range keys {
		out = append(out, J{"key": k, "val": projVal(h[k])})
	}
	return out
}

func projStrings(s []string) []any {
	out := make([]any, 0, len(s))
	for _, x := range s {
		out = append(out, x)
	}
	return out
}

func projTypes(ts []verifapi.Type) []any {
	out := make([]any, 0, len(ts))
	for _, t := range ts {
		out = append(out, projType(t))
	}
	return out
}

func projType(t verifapi.Type) J {
	if t.Kind == "" {
		return J{"k": "none"}
	}
	j := J{"nullable": t.Nullable, "def": projVal(t.Default), "hints": projHints(t.Hints)}
	switch {
	case t.Kind == "scalar" && t.Scalar != nil:
		j["k"] = "scalar"
		j["sk"] = string(t.Scalar.ScalarKind)
		j["val"] = projVal(t.Scalar.Value)
		cons := make([]any, 0, len(t.Scalar.Constraints))
		for _, c := range t.Scalar.Constraints {
			args := make([]any, 0, len(c.Args))
			for _, a := range c.Args {
				args = append(args, projVal(a))
			}
			cons = append(cons, J{"op": string(c.Op), "args": args})
		}
		j["cons"] = cons
	case t.Kind == "ref" && t.Ref != nil:
		j["k"] = "ref"
		j["pkg"] = t.Ref.ReferredPkg
		j["name"] = t.Ref.ReferredType
	case t.Kind == "constant_ref" && t.ConstantReference != nil:
		j["k"] = "constref"
		j["pkg"] = t.ConstantReference.ReferredPkg
		j["name"] = t.ConstantReference.ReferredType
		j["val"] = projVal(t.ConstantReference.ReferenceValue)
	case t.Kind == "array" && t.Array != nil:
		j["k"] = "array"
		j["elem"] = projType(t.Array.ValueType)
	case t.Kind == "map" && t.Map != nil:
		j["k"] = "map"
		j["idx"] = projType(t.Map.IndexType)
		j["elem"] = projType(t.Map.ValueType)
	case t.Kind == "struct" && t.Struct != nil:
		j["k"] = "struct"
		fields := make([]any, 0, len(t.Struct.Fields))
		for _, f := range t.Struct.Fields {
			fields = append(fields, J{"name": f.Name, "type": projType(f.Type), "required": f.Required, "comments": projStrings(f.Comments)})
		}
		j["fields"] = fields
	case t.Kind == "enum" && t.Enum != nil:
		j["k"] = "enum"
		members := make([]any, 0, len(t.Enum.Values))
		for _, m := range t.Enum.Values {
			sk := "?"
			if m.Type.Scalar != nil {
				sk = string(m.Type.Scalar.ScalarKind)
			}
			members = append(members, J{"name": m.Name, "val": projVal(m.Value), "sk": sk})
		}
		j["members"] = members
	case t.Kind == "disjunction" && t.Disjunction != nil:
		j["k"] = "disj"
		j["branches"] = projTypes(t.Disjunction.Branches)
		j["discr"] = t.Disjunction.Discriminator
		keys := make([]string, 0, len(t.Disjunction.DiscriminatorMapping))
		for k := range t.Disjunction.DiscriminatorMapping {
			keys = append(keys, k)
		}
		sort.Strings(keys)
		mapping := make([]any, 0, len(keys))
		for _, k := range keys {
			mapping = append(mapping, J{"key": k, "to": t.Disjunction.DiscriminatorMapping[k]})
		}
		j["mapping"] = mapping
	case t.Kind == "intersection" && t.Intersection != nil:
		j["k"] = "inter"
		j["branches"] = projTypes(t.Intersection.Branches)
	case t.Kind == "composable_slot" && t.ComposableSlot != nil:
		j["k"] = "slot"
		j["variant"] = string(t.ComposableSlot.Variant)
	default:
		// Kind set but the kind-specific pointer is nil (or unknown kind): an ill-formed type
		return J{"k": "illformed", "kind": string(t.Kind)}
	}
	return j
}

func projObject(o verifapi.Object) J {
	return J{"name": o.Name, "comments": projStrings(o.Comments), "type": projType(o.Type),
		"selfpkg": o.SelfRef.ReferredPkg, "selfname": o.SelfRef.ReferredType}
}

func projSchema(s *verifapi.Schema) J {
	objs := []any{}
	if s.Objects != nil {
		s.Objects.Iterate(func(_ string, o verifapi.Object) { objs = append(objs, projObject(o)) })
	}
	return J{"pkg": s.Package,
		"meta":      J{"kind": string(s.Metadata.Kind), "variant": string(s.Metadata.Variant), "id": s.Metadata.Identifier},
		"entry":     s.EntryPoint,
		"entrytype": projType(s.EntryPointType),
		"objects":   objs}
}

func projSchemas(ss verifapi.Schemas) []any {
	out := make([]any, 0, len(ss))
	for _, s := range ss {
		out = append(out, projSchema(s))
	}
	return out
}

// ---------------------------------------------------------------- unproject

func jlist(v any) []any {
	l, _ := v.([]any)
	return l
}

func jmap(v any) J {
	m, _ := v.(map[string]any)
	return m
}

func jstr(v any) string {
	s, _ := v.(string)
	return s
}

func jbool(v any) bool {
	b, _ := v.(bool)
	return b
}

func jstrings(v any) []string {
	l := jlist(v)
	if len(l) == 0 {
		return nil
	}
	out := make([]string, 0, len(l))
	for _, x := range l {
		out = append(out, jstr(x))
	}
	return out
}

func unprojTypes(v any) ([]verifapi.Type, error) {
	out := []verifapi.Type{}
	for _, x := range jlist(v) {
		t, err := unprojType(jmap(x))
		if err != nil {
			return nil, err
		}
		out = append(out, t)
	}
	return out, nil
}

func unprojType(j J) (verifapi.Type, error) {
	k := jstr(j["k"])
	if k == "none" {
		return verifapi.Type{}, nil
	}
	t := verifapi.Type{Nullable: jbool(j["nullable"]), Hints: verifapi.JenniesHints{}}
	var err error
	if d := jmap(j["def"]); d != nil {
		if t.Default, err = unprojVal(d); err != nil {
			return t, err
		}
	}
	for _, h := range jlist(j["hints"]) {
		hv, err := unprojVal(jmap(jmap(h)["val"]))
		if err != nil {
			return t, err
		}
		t.Hints[jstr(jmap(h)["key"])] = hv
	}
	switch k {
	case "scalar":
		t.Kind = "scalar"
		sc := &verifapi.ScalarType{ScalarKind: verifapi.ScalarKind(jstr(j["sk"]))}
		if v := jmap(j["val"]); v != nil {
			if sc.Value, err = unprojVal(v); err != nil {
				return t, err
			}
		}
		for _, c := range jlist(j["cons"]) {
			tc := verifapi.TypeConstraint{Op: verifapi.Op(jstr(jmap(c)["op"]))}
			for _, a := range jlist(jmap(c)["args"]) {
				av, err := unprojVal(jmap(a))
				if err != nil {
					return t, err
				}
				tc.Args = append(tc.Args, av)
			}
			sc.Constraints = append(sc.Constraints, tc)
		}
		t.Scalar = sc
	case "ref":
		t.Kind = "ref"
		t.Ref = &verifapi.RefType{ReferredPkg: jstr(j["pkg"]), ReferredType: jstr(j["name"])}
	case "constref":
		t.Kind = "constant_ref"
		cr := &verifapi.ConstantReferenceType{ReferredPkg: jstr(j["pkg"]), ReferredType: jstr(j["name"])}
		if v := jmap(j["val"]); v != nil {
			if cr.ReferenceValue, err = unprojVal(v); err != nil {
				return t, err
			}
		}
		t.ConstantReference = cr
	case "array":
		t.Kind = "array"
		e, err := unprojType(jmap(j["elem"]))
		if err != nil {
			return t, err
		}
		t.Array = &verifapi.ArrayType{ValueType: e}
	case "map":
		t.Kind = "map"
		i, err := unprojType(jmap(j["idx"]))
		if err != nil {
			return t, err
		}
		e, err := unprojType(jmap(j["elem"]))
		if err != nil {
			return t, err
		}
		t.Map = &verifapi.MapType{IndexType: i, ValueType: e}
	case "struct":
		t.Kind = "struct"
		st := &verifapi.StructType{Fields: []verifapi.StructField{}}
		for _, f := range jlist(j["fields"]) {
			fm := jmap(f)
			ft, err := unprojType(jmap(fm["type"]))
			if err != nil {
				return t, err
			}
			st.Fields = append(st.Fields, verifapi.StructField{Name: jstr(fm["name"]), Type: ft, Required: jbool(fm["required"]), Comments: jstrings(fm["comments"])})
		}
		t.Struct = st
	case "enum":
		t.Kind = "enum"
		en := &verifapi.EnumType{}
		for _, m := range jlist(j["members"]) {
			mm := jmap(m)
			v, err := unprojVal(jmap(mm["val"]))
			if err != nil {
				return t, err
			}
			mt := verifapi.Type{Kind: "scalar", Hints: verifapi.JenniesHints{}, Scalar: &verifapi.ScalarType{ScalarKind: verifapi.ScalarKind(jstr(mm["sk"]))}}
			en.Values = append(en.Values, verifapi.EnumValue{Name: jstr(mm["name"]), Value: v, Type: mt})
		}
		t.Enum = en
	case "disj":
		t.Kind = "disjunction"
		bs, err := unprojTypes(j["branches"])
		if err != nil {
			return t, err
		}
		d := &verifapi.DisjunctionType{Branches: bs, Discriminator: jstr(j["discr"]), DiscriminatorMapping: map[string]string{}}
		for _, m := range jlist(j["mapping"]) {
			d.DiscriminatorMapping[jstr(jmap(m)["key"])] = jstr(jmap(m)["to"])
		}
		t.Disjunction = d
	case "inter":
		t.Kind = "intersection"
		bs, err := unprojTypes(j["branches"])
		if err != nil {
			return t, err
		}
		t.Intersection = &verifapi.IntersectionType{Branches: bs}
	case "slot":
		t.Kind = "composable_slot"
		t.ComposableSlot = &verifapi.ComposableSlotType{Variant: verifapi.SchemaVariant(jstr(j["variant"]))}
	default:
		return t, fmt.Errorf("unproject: unknown type kind %q", k)
	}
	return t, nil
}

func unprojObject(j J) (verifapi.Object, error) {
	t, err := unprojType(jmap(j["type"]))
	if err != nil {
		return verifapi.Object{}, err
	}
	return verifapi.Object{Name: jstr(j["name"]), Comments: jstrings(j["comments"]), Type: t,
		SelfRef: verifapi.RefType{ReferredPkg: jstr(j["selfpkg"]), ReferredType: jstr(j["selfname"])}}, nil
}

func unprojSchema(j J) (*verifapi.Schema, error) {
	meta := jmap(j["meta"])
	s := verifapi.NewSchema(jstr(j["pkg"]), verifapi.SchemaMeta{Kind: verifapi.SchemaKind(jstr(meta["kind"])),
		Variant: verifapi.SchemaVariant(jstr(meta["variant"])), Identifier: jstr(meta["id"])})
	s.EntryPoint = jstr(j["entry"])
	if et := jmap(j["entrytype"]); et != nil {
		t, err := unprojType(et)
		if err != nil {
			return nil, err
		}
		s.EntryPointType = t
	}
	for _, o := range jlist(j["objects"]) {
		obj, err := unprojObject(jmap(o))
		if err != nil {
			return nil, err
		}
		s.AddObject(obj)
	}
	return s, nil
}

func unprojSchemas(v any) (verifapi.Schemas, error) {
	out := verifapi.Schemas{}
	for _, s := range jlist(v) {
		sc, err := unprojSchema(jmap(s))
		if err != nil {
			return nil, err
		}
		out = append(out, sc)
	}
	return out, nil
}

// canon renders any JSON-able value canonically (sorted keys) for equality and hashing.
func canon(v any) string {
	raw, err := json.Marshal(v)
	if err != nil {
		return fmt.Sprintf("!%v", err)
	}
	var x any
	_ = json.Unmarshal(raw, &x)
	out, _ := json.Marshal(x)
	return string(out)
}
