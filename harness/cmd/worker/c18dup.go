package main

// C18, "in every duplicate rule": the cases of spec/HeapDup.tla on the REAL duplicate rules.
//
//   duplicate_object    schema transformation: compiler.Passes{&DuplicateObject{..}}.Process
//   builder_duplicate   builder veneer rule `duplicate` (with its exclude_options list)
//   option_duplicate    option veneer rule `duplicate`
//
// One case = source shape (kind chain, fill, payload) x exclusion list x target package. The worker
// instantiates the source with the C18 filler, realises the exclusion list on the names the source
// really has ("first", "last", "all": names of its elements; "absent": a name it does not have), runs
// the real rule and judges source and duplicate with the operators of Heap.tla:
//
//   Iso       the duplicate equals the source with the elements the spec says are NOT kept removed
//             (keep table of the case), after undoing what the rule documents it sets (name, self
//             reference, one trail entry)
//   Disjoint  no cell (backing array, map, pointer target) reachable from both
//   Snapshot  every kind of write at every site of the duplicate leaves the source unchanged, then every
//             kind of write at every site of the source leaves the duplicate unchanged
//   follow    (duplicate_object) a real schema transformation aimed by name at one of the two, run in
//             the same chain after the rule, leaves the other one as the chain without it does
//
// Small heaps are written as records for spec/HeapDupTrace.tla (the same verdicts, by TLC).
// A defect that a DeepCopy method reproduces on the source alone carries that method's signature
// (C18/<Type>.DeepCopy/...); one that none reproduces was introduced by the rule:
// C18/<site>/<Lost|Differs|Shared|Mutation-visible|Pass-visible|...>/<field>.

import (
	"bufio"
	"encoding/json"
	"flag"
	"fmt"
	"os"
	"reflect"
	"sort"
	"strings"
	"sync"

	"github.com/grafana/cog/verifapi"
)

func init() {
	commands["c18-dup"] = c18Dup
}

type c18Follow struct {
	Pass    string `json:"pass"`
	Needs   string `json:"needs"`
	Through string `json:"through"`
}

type c18DupCase struct {
	Rule    string      `json:"rule"`
	Chain   []string    `json:"chain"`
	Fill    string      `json:"fill"`
	Payload string      `json:"payload"`
	Target  string      `json:"target"`
	Excl    []string    `json:"excl"`
	Keep    [][]int     `json:"keep"` // entry n: what the duplicate keeps of n elements (1-based positions, in order)
	Follow  []c18Follow `json:"follow"`
}

func (c c18DupCase) key() string {
	return fmt.Sprintf("%s|%v|%s|%s|%s|%v", c.Rule, c.Chain, c.Fill, c.Payload, c.Target, c.Excl)
}

func (c c18DupCase) shape(root string) c18Shape {
	return c18Shape{Root: root, Chain: c.Chain, Fill: c.Fill, Payload: c.Payload}
}

func (c c18DupCase) exclClass() string {
	if len(c.Excl) == 0 {
		return "none"
	}
	return strings.Join(c.Excl, "+")
}

// c18DupRule: what a duplicate rule documents it changes, and where the elements it can leave out are
type c18DupRule struct {
	site        string // signature site
	root        string // node type of source and duplicate
	trailField  string // the rule appends one entry with this prefix
	trailPrefix string
	reset       [][]string // scalar fields the rule sets (paths from the root)
	elems       []string   // path from the root to the slice the exclusion list filters
}

var c18DupRules = map[string]c18DupRule{
	"duplicate_object": {site: "compiler.DuplicateObject", root: "Object", trailField: "PassesTrail", trailPrefix: "DuplicateObject[",
		reset: [][]string{{"Name"}, {"SelfRef", "ReferredPkg"}, {"SelfRef", "ReferredType"}}, elems: []string{"Type", "Struct", "Fields"}},
	"builder_duplicate": {site: "builder.Duplicate", root: "Builder", trailField: "VeneerTrail", trailPrefix: "Duplicate[",
		reset: [][]string{{"Name"}}, elems: []string{"Options"}},
	"option_duplicate": {site: "option.Duplicate", root: "Option", trailField: "VeneerTrail", trailPrefix: "Duplicate[",
		reset: [][]string{{"Name"}}},
}

type c18DupStats struct {
	Cases         int            `json:"cases"`
	PerRule       map[string]int `json:"cases_per_rule"`
	Judged        map[string]int `json:"duplicates_judged_per_rule"`
	PerExcl       map[string]int `json:"duplicates_judged_per_exclusion_class"`
	Dropping      int            `json:"duplicates_that_left_elements_out"` // the list named at least one element of the source
	FilterKeptAll int            `json:"duplicates_with_a_list_that_left_nothing_out"`
	NonStruct     int            `json:"object_duplicates_of_non_struct_sources"`
	OtherPackage  int            `json:"object_duplicates_into_another_package"`
	Writes        map[string]int `json:"writes_per_direction"` // through the duplicate / through the source
	FollowRuns    map[string]int `json:"follow_runs"`          // pass/through -> runs judged
	FollowEff     map[string]int `json:"follow_effective"`     // ... in which the pass changed its target
	FollowErr     map[string]int `json:"follow_errors"`
	Elements      map[string]int `json:"sources_per_number_of_excludable_elements"`
	Cells         int            `json:"cells"`
	MaxCells      int            `json:"max_cells"`
	Traced        int            `json:"traced"`
}

func newC18DupStats() *c18DupStats {
	return &c18DupStats{PerRule: map[string]int{}, Judged: map[string]int{}, PerExcl: map[string]int{}, Writes: map[string]int{},
		FollowRuns: map[string]int{}, FollowEff: map[string]int{}, FollowErr: map[string]int{}, Elements: map[string]int{}}
}

func (st *c18DupStats) merge(o *c18DupStats) {
	st.Cases += o.Cases
	st.Dropping += o.Dropping
	st.FilterKeptAll += o.FilterKeptAll
	st.NonStruct += o.NonStruct
	st.OtherPackage += o.OtherPackage
	st.Cells += o.Cells
	if o.MaxCells > st.MaxCells {
		st.MaxCells = o.MaxCells
	}
	st.Traced += o.Traced
	for _, p := range []struct{ a, b map[string]int }{{st.PerRule, o.PerRule}, {st.Judged, o.Judged}, {st.PerExcl, o.PerExcl},
		{st.Writes, o.Writes}, {st.Elements, o.Elements}, {st.FollowRuns, o.FollowRuns}, {st.FollowEff, o.FollowEff}, {st.FollowErr, o.FollowErr}} {
		for k, v := range p.b {
			p.a[k] += v
		}
	}
}

func c18ReadDupCases(path string) ([]c18DupCase, error) {
	f, err := os.Open(path)
	if err != nil {
		return nil, err
	}
	defer f.Close()
	var out []c18DupCase
	sc := bufio.NewScanner(f)
	sc.Buffer(make([]byte, 1<<20), 1<<26)
	for sc.Scan() {
		line := strings.TrimSpace(sc.Text())
		if line == "" {
			continue
		}
		var c c18DupCase
		if err := json.Unmarshal([]byte(line), &c); err != nil {
			return nil, err
		}
		out = append(out, c)
	}
	return out, sc.Err()
}

func c18Dup(args []string) int {
	fs := flag.NewFlagSet("c18-dup", flag.ExitOnError)
	casesIn := fs.String("cases", "", "ndjson file of DUPCASE records (spec/HeapDup.tla)")
	traceOut := fs.String("trace", "", "write records for HeapDupTrace.tla")
	traceMax := fs.Int("trace-max", 0, "maximum number of trace records")
	traceCells := fs.Int("trace-cells", 150, "only heaps with at most this many cells are traced")
	par := fs.Int("par", 16, "parallel workers")
	_ = fs.Parse(args)
	cases, err := c18ReadDupCases(*casesIn)
	if err != nil {
		fmt.Fprintln(os.Stderr, err)
		return 2
	}
	sort.SliceStable(cases, func(i, j int) bool { return cases[i].key() < cases[j].key() })
	roots := c18Roots()
	st := newC18DupStats()
	sigs := map[string]*sigAgg{}
	var samples []any
	var harness []string
	var tw *bufio.Writer
	if *traceOut != "" {
		tf, err := os.Create(*traceOut)
		if err != nil {
			fmt.Fprintln(os.Stderr, err)
			return 2
		}
		defer tf.Close()
		tw = bufio.NewWriterSize(tf, 1<<20)
		defer tw.Flush()
	}
	// the trace quota is spread over rules and exclusion classes: at most quota/classes records per class first
	perClass := map[string]int{}
	classQuota := 1
	if *traceMax > 0 {
		classQuota = *traceMax/24 + 1
	}
	var mu sync.Mutex
	jobs := make(chan c18DupCase, 16)
	var wg sync.WaitGroup
	for i := 0; i < *par; i++ {
		wg.Add(1)
		go func() {
			defer wg.Done()
			for cs := range jobs {
				r := c18DupOne(cs, roots, *traceCells)
				mu.Lock()
				st.merge(r.st)
				if r.problem != "" && len(harness) < 5 {
					harness = append(harness, r.problem)
				}
				for _, f := range r.findings {
					a := sigs[f.Sig]
					if a == nil {
						a = &sigAgg{}
						sigs[f.Sig] = a
					}
					a.Count++
					if len(a.Examples) < 2 {
						a.Examples = append(a.Examples, f.Ex)
					}
				}
				if r.record != nil && tw != nil {
					cl := cs.Rule + "|" + cs.exclClass()
					if st.Traced < *traceMax && perClass[cl] < classQuota {
						perClass[cl]++
						st.Traced++
						r.record["n"] = st.Traced
						b, _ := json.Marshal(r.record)
						tw.Write(b)
						tw.WriteByte('\n')
						if len(samples) < 1 && len(cs.Excl) > 0 && r.record["ncells"].(int) <= 60 {
							samples = append(samples, r.record)
						}
					}
				}
				mu.Unlock()
			}
		}()
	}
	for _, cs := range cases {
		jobs <- cs
	}
	close(jobs)
	wg.Wait()
	if len(samples) == 0 {
		samples = append(samples, J{"note": "no small duplicate sampled"})
	}
	b, _ := json.Marshal(J{"stats": st, "signatures": sigs, "samples": samples, "harness_errors": harness})
	os.Stdout.Write(b)
	os.Stdout.WriteString("\n")
	return 0
}

type c18DupResult struct {
	st       *c18DupStats
	findings []c18Finding
	record   J
	problem  string
}

// realise the exclusion list on the names the source really has
func c18DupNames(excl []string, names []string) []string {
	if len(excl) == 0 {
		return nil
	}
	var out []string
	for _, d := range excl {
		switch {
		case d == "absent":
			out = append(out, "ZZabsent")
		case len(names) == 0:
			out = append(out, "ZZnone"+d) // nothing to name: the list is still not empty
		case d == "first":
			out = append(out, names[0])
		case d == "last":
			out = append(out, names[len(names)-1])
		case d == "all":
			out = append(out, names...)
		}
	}
	return out
}

func c18ElemNames(v reflect.Value, path []string) ([]string, bool) {
	cur := v
	for _, name := range path {
		for cur.Kind() == reflect.Ptr {
			if cur.IsNil() {
				return nil, false
			}
			cur = cur.Elem()
		}
		cur = cur.FieldByName(name)
		if !cur.IsValid() {
			return nil, false
		}
	}
	if cur.Kind() != reflect.Slice {
		return nil, false
	}
	var names []string
	for i := 0; i < cur.Len(); i++ {
		names = append(names, cur.Index(i).FieldByName("Name").String())
	}
	return names, true
}

// c18Project: a value equal to src except that the slice at path holds only the kept elements (1-based
// positions). The containers on the path are fresh, everything below is src's own: for comparison only.
func c18Project(src reflect.Value, path []string, keep []int) (reflect.Value, bool) {
	out := reflect.New(src.Type()).Elem()
	out.Set(src)
	cur := out
	for i, name := range path {
		f := cur.FieldByName(name)
		if !f.IsValid() {
			return out, false
		}
		if i == len(path)-1 {
			if f.Kind() != reflect.Slice {
				return out, false
			}
			ns := reflect.MakeSlice(f.Type(), 0, len(keep))
			for _, k := range keep {
				if k < 1 || k > f.Len() {
					return out, false
				}
				ns = reflect.Append(ns, f.Index(k-1))
			}
			f.Set(ns)
			return out, true
		}
		if f.Kind() == reflect.Ptr {
			if f.IsNil() {
				return out, false
			}
			np := reflect.New(f.Type().Elem())
			np.Elem().Set(f.Elem())
			f.Set(np)
			cur = np.Elem()
		} else {
			cur = f
		}
	}
	return out, false
}

func fieldByPath(v reflect.Value, path []string) reflect.Value {
	for _, name := range path {
		if !v.IsValid() || v.Kind() != reflect.Struct {
			return reflect.Value{}
		}
		v = v.FieldByName(name)
	}
	return v
}

func asAddressable(x any) reflect.Value {
	v := reflect.New(reflect.TypeOf(x)).Elem()
	v.Set(reflect.ValueOf(x))
	return v
}

// ------------------------------------------------------------------ duplicate_object: input and chain

func c18DupObjectInput(cs c18DupCase, roots map[string]reflect.Type) (verifapi.Schemas, string) {
	// depth counted from -2: the fields of the object (two levels below it) get the width of a root's own slots
	v, f := c18NewFrom(roots["Object"], cs.shape("Object"), -2)
	if f.err != nil {
		return nil, f.err.Error()
	}
	obj := v.Interface().(verifapi.Object)
	obj.Name = "Source"
	a := verifapi.NewSchema("pkga", verifapi.SchemaMeta{})
	a.AddObject(obj)
	b := verifapi.NewSchema("pkgb", verifapi.SchemaMeta{})
	b.AddObject(verifapi.NewObject("pkgb", "Other", verifapi.Type{Kind: "scalar", Scalar: &verifapi.ScalarType{ScalarKind: "string"}}))
	schemas := verifapi.Schemas{a, b}
	c18FixRefs(schemas) // adds pkga.Leaf, points every reference at it, makes names, keys and self references agree
	return schemas, ""
}

func c18LocateObject(schemas verifapi.Schemas, pkg, name string) (reflect.Value, bool) {
	for _, s := range schemas {
		if s != nil && s.Package == pkg && s.Objects != nil && s.Objects.Has(name) {
			return asAddressable(s.Objects.Get(name)), true
		}
	}
	return reflect.Value{}, false
}

// ------------------------------------------------------------------ one case

func c18DupOne(cs c18DupCase, roots map[string]reflect.Type, traceCells int) (res c18DupResult) {
	res.st = newC18DupStats()
	st := res.st
	st.Cases++
	st.PerRule[cs.Rule]++
	rule, ok := c18DupRules[cs.Rule]
	if !ok {
		res.problem = "unknown rule " + cs.Rule
		return
	}
	caseJ := J{"rule": cs.Rule, "chain": cs.Chain, "fill": cs.Fill, "payload": cs.Payload, "target": cs.Target, "excl": cs.Excl,
		"keep": cs.Keep, "follow": cs.Follow}
	add := func(sig string, ex J) {
		ex["case"] = caseJ
		res.findings = append(res.findings, c18Finding{sig, ex})
	}
	defer func() {
		if r := recover(); r != nil {
			add(fmt.Sprintf("C18/%s/panic/%s", rule.site, cs.Fill), J{"problem": fmt.Sprint(r)})
		}
	}()

	var src, dup reflect.Value
	var names, exclNames []string
	var followBase func() // duplicate_object only
	switch cs.Rule {
	case "duplicate_object":
		targetPkg := "pkga"
		if cs.Target == "other" {
			targetPkg = "pkgb"
		}
		probe, problem := c18DupObjectInput(cs, roots)
		if problem != "" {
			res.problem = problem
			return
		}
		srcIn, _ := c18LocateObject(probe, "pkga", "Source")
		names, _ = c18ElemNames(srcIn, rule.elems)
		exclNames = c18DupNames(cs.Excl, names)
		or := func(p, o string) verifapi.ObjectReference { return verifapi.ObjectReference{Package: p, Object: o} }
		chain := func(more ...verifapi.Pass) (reflect.Value, reflect.Value, error) {
			in, _ := c18DupObjectInput(cs, roots)
			passes := verifapi.Passes{&verifapi.DuplicateObject{Object: or("pkga", "Source"), As: or(targetPkg, "Dup"),
				OmitFields: append([]string{}, exclNames...)}}
			if len(exclNames) == 0 {
				passes[0].(*verifapi.DuplicateObject).OmitFields = nil
			}
			out, err := append(passes, more...).Process(in)
			if err != nil {
				return reflect.Value{}, reflect.Value{}, err
			}
			s, ok1 := c18LocateObject(out, "pkga", "Source")
			d, ok2 := c18LocateObject(out, targetPkg, "Dup")
			if !ok1 || !ok2 {
				return s, d, fmt.Errorf("source found %v, duplicate found %v", ok1, ok2)
			}
			return s, d, nil
		}
		var err error
		src, dup, err = chain()
		if err != nil {
			add(fmt.Sprintf("C18/%s/no-duplicate/%s", rule.site, cs.Fill), J{"problem": err.Error()})
			return
		}
		// the rule works on its copy only: the source comes out of the chain as it went in
		flatIn, flatOut := map[string]string{}, map[string]string{}
		flatten(srcIn, "", flatIn)
		flatten(src, "", flatOut)
		if d := flatDiff(flatIn, flatOut); len(d) > 0 {
			add(fmt.Sprintf("C18/%s/Source-changed/%s", rule.site, firstField(d[0])), J{"changed": d[0], "was": flatIn[d[0]], "now": flatOut[d[0]],
				"excluded": exclNames})
			return
		}
		if src.FieldByName("Type").FieldByName("Struct").IsNil() {
			st.NonStruct++
		}
		if cs.Target == "other" {
			st.OtherPackage++
		}
		followBase = func() { c18DupFollow(cs, rule, chain, targetPkg, names, st, add) }
	case "builder_duplicate":
		v, f := c18New(roots["Builder"], cs.shape("Builder"))
		if f.err != nil {
			res.problem = f.err.Error()
			return
		}
		names, _ = c18ElemNames(v, rule.elems)
		exclNames = c18DupNames(cs.Excl, names)
		before := map[string]string{}
		flatten(v, "", before)
		r := verifapi.BuilderDuplicate(verifapi.BuilderEveryBuilder(), "Duplicated", exclNames)
		out, err := r(verifapi.Schemas{}, verifapi.Builders{v.Interface().(verifapi.Builder)})
		if err != nil || len(out) != 2 {
			add(fmt.Sprintf("C18/%s/no-duplicate/%s", rule.site, cs.Fill), J{"problem": fmt.Sprint(err, len(out))})
			return
		}
		after := map[string]string{}
		flatten(v, "", after)
		if d := flatDiff(before, after); len(d) > 0 {
			add(fmt.Sprintf("C18/%s/Source-changed/%s", rule.site, firstField(d[0])), J{"changed": d[0]})
		}
		src, dup = asAddressable(out[0]), asAddressable(out[1])
	case "option_duplicate":
		v, f := c18New(roots["Builder"], cs.shape("Builder"))
		if f.err != nil {
			res.problem = f.err.Error()
			return
		}
		b := v.Interface().(verifapi.Builder)
		if len(b.Options) == 0 {
			return // a builder without options has no option to duplicate
		}
		r := verifapi.OptionDuplicate(verifapi.OptionEveryOption(), "duplicated")
		opts := r.Action(verifapi.Schemas{}, b, b.Options[0])
		if len(opts) != 2 {
			add(fmt.Sprintf("C18/%s/no-duplicate/%s", rule.site, cs.Fill), J{"n": len(opts)})
			return
		}
		src, dup = asAddressable(opts[0]), asAddressable(opts[1])
	}

	// ---- what the spec says the duplicate keeps
	var keep []int
	n := len(names)
	if rule.elems != nil {
		if n+1 > len(cs.Keep) {
			res.problem = fmt.Sprintf("%s: the source has %d elements, the keep table of the case ends at %d", cs.key(), n, len(cs.Keep)-1)
			return
		}
		keep = cs.Keep[n]
	}
	st.Judged[cs.Rule]++
	if rule.elems != nil {
		st.Elements[fmt.Sprintf("%s/%d", cs.Rule, n)]++
	}
	st.PerExcl[cs.Rule+"/"+cs.exclClass()]++
	if rule.elems != nil && len(keep) < n {
		st.Dropping++
	}
	if len(exclNames) > 0 && len(keep) == n {
		st.FilterKeptAll++
	}

	// ---- undo what the rule documents it sets
	for _, p := range rule.reset {
		d, s := fieldByPath(dup, p), fieldByPath(src, p)
		if !d.IsValid() || !s.IsValid() {
			add(fmt.Sprintf("C18/%s/harness/no-field-%s", rule.site, strings.Join(p, ".")), J{})
			return
		}
		d.Set(s)
	}
	trail, srcTrail := dup.FieldByName(rule.trailField), src.FieldByName(rule.trailField)
	if !trail.IsValid() {
		add(fmt.Sprintf("C18/%s/harness/no-field-%s", rule.site, rule.trailField), J{})
		return
	}
	if trail.Len() == srcTrail.Len()+1 && strings.HasPrefix(trail.Index(trail.Len()-1).String(), rule.trailPrefix) {
		trail.Set(trail.Slice(0, trail.Len()-1))
	}

	// ---- Disjoint on the two values as they are; Iso against the source without the elements not kept
	an, err := c18Analyse(src, dup)
	if err != nil {
		add(fmt.Sprintf("C18/%s/harness/extract", rule.site), J{"problem": err.Error()})
		return
	}
	st.Cells += len(an.w.cells)
	st.MaxCells = len(an.w.cells)
	isoRoot, diffs := src, an.diffs
	if rule.elems != nil && len(keep) < n {
		proj, ok := c18Project(src, rule.elems, keep)
		if !ok {
			res.problem = fmt.Sprintf("%s: cannot project the source on the kept elements %v", cs.key(), keep)
			return
		}
		pa, err := c18Analyse(proj, dup)
		if err != nil {
			add(fmt.Sprintf("C18/%s/harness/extract", rule.site), J{"problem": err.Error()})
			return
		}
		isoRoot, diffs = proj, pa.diffs
	}
	sigOf := func(at c18Attr, byDeepCopy bool, class string) string {
		if byDeepCopy {
			return fmt.Sprintf("C18/%s.DeepCopy/%s/%s", at.typ, class, at.field)
		}
		return fmt.Sprintf("C18/%s/%s/%s", rule.site, class, at.field)
	}
	type attrOK struct {
		at c18Attr
		ok bool
	}
	memo := map[string]attrOK{}
	attribute := func(root reflect.Value, path []pstep, class string) attrOK {
		key := class + "|" + pathNorm(path)
		for _, p := range path {
			if p.any {
				key += "|any"
				break
			}
		}
		if a, ok := memo[key]; ok {
			return a
		}
		at, ok := c18AttributeR(root, rule.root, path, class, true)
		memo[key] = attrOK{at, ok}
		return memo[key]
	}
	byOrigPath, byCopyPath := map[string]attrOK{}, map[string]attrOK{}
	for _, sh := range an.shared {
		if sh.origPath == nil {
			add(fmt.Sprintf("C18/%s/Shared/overlapping-arrays", rule.site), J{"cells": sh.cell})
			continue
		}
		a := attribute(src, sh.origPath, "Shared")
		byOrigPath[pathString(sh.origPath)] = a
		byCopyPath[pathString(sh.copyPath)] = a
		add(sigOf(a.at, a.ok, "Shared"), J{"path_in_source": pathString(sh.origPath), "path_in_duplicate": pathString(sh.copyPath),
			"cell_kind": sh.kind, "excluded": exclNames})
	}
	for _, d := range diffs {
		a := attribute(isoRoot, d.path, d.class)
		add(sigOf(a.at, a.ok, d.class), J{"path": pathString(d.path), "source_without_excluded": d.a, "duplicate": d.b,
			"excluded": exclNames, "kept_positions": keep})
	}

	// ---- Snapshot: writes through the duplicate, then through the source
	type stepRec struct {
		A    string   `json:"a"`
		Op   string   `json:"op"`
		Muts []mutRec `json:"muts"`
	}
	steps := []stepRec{}
	leaks := []string{}
	w := an.w
	vals := map[string]reflect.Value{"o": src, "k": dup}
	names2 := map[string]string{"k": "duplicate", "o": "source"}
	seen := map[string]bool{}
	leaked := map[string]bool{}
	for _, dir := range [][2]string{{"k", "o"}, {"o", "k"}} {
		actor, victim := dir[0], dir[1]
		base := map[string]string{}
		flatten(vals[victim], "", base)
		lookup := byOrigPath
		if victim == "k" {
			lookup = byCopyPath
		}
		for _, op := range c18RevealingOps {
			w.mut, w.seen, w.muts = op, map[string]bool{}, nil
			w.root(vals[actor], actor)
			steps = append(steps, stepRec{actor, op, append([]mutRec{}, w.muts...)})
			st.Writes["through_"+names2[actor]] += len(w.muts)
			if w.err != nil {
				add(fmt.Sprintf("C18/%s/harness/mutate", rule.site), J{"problem": w.err.Error()})
				return
			}
			// after every step the other value must be what it was
			cur := map[string]string{}
			flatten(vals[victim], "", cur)
			changed := flatDiff(base, cur)
			if len(changed) > 0 && !leaked[actor+">"+victim] {
				leaked[actor+">"+victim] = true
				leaks = append(leaks, actor+">"+victim)
			}
			for _, cpath := range changed {
				sig := fmt.Sprintf("C18/%s/Mutation-visible/unattributed:%s", rule.site, firstField(cpath))
				if ps, found := longestPrefix(cpath, func(p string) bool { _, in := lookup[p]; return in }); found {
					sig = sigOf(lookup[ps].at, lookup[ps].ok, "Mutation-visible")
				}
				if seen[sig] {
					continue
				}
				seen[sig] = true
				add(sig, J{"written_through": names2[actor], "write": op, "changed_in": names2[victim],
					"path": cpath, "was": base[cpath], "now": cur[cpath], "excluded": exclNames})
			}
			base = cur
		}
		w.mut = ""
	}
	if len(an.w.cells) <= traceCells {
		path := rule.elems
		if path == nil || len(keep) == n {
			path = []string{}
		}
		res.record = J{"case": caseJ, "cells": an.w.cells, "o": an.o, "k": an.k, "path": path, "keep": keep, "n": 0,
			"steps": steps, "leaks": leaks, "go_iso": len(diffs) == 0, "go_disjoint": an.sharedAll == 0, "ncells": len(an.w.cells)}
		if keep == nil {
			res.record["keep"] = []int{}
		}
	}
	if followBase != nil {
		followBase()
	}
	return
}

// c18DupFollow: real schema transformations aimed by name at the duplicate (or at the source), in the same
// chain after duplicate_object: the other one must come out as it does from the chain without them.
func c18DupFollow(cs c18DupCase, rule c18DupRule, chain func(more ...verifapi.Pass) (reflect.Value, reflect.Value, error),
	targetPkg string, names []string, st *c18DupStats, add func(string, J)) {
	if len(cs.Follow) == 0 {
		return
	}
	srcA, dupA, err := chain()
	if err != nil {
		return
	}
	flatSrcA, flatDupA := map[string]string{}, map[string]string{}
	flatten(srcA, "", flatSrcA)
	flatten(dupA, "", flatDupA)
	keptNames, _ := c18ElemNames(dupA, rule.elems)
	byName := map[string]c18Pass{}
	for _, p := range c18PassList() {
		byName[p.name] = p
	}
	follows := append([]c18Follow{}, cs.Follow...)
	sort.Slice(follows, func(i, j int) bool { return follows[i].Pass+follows[i].Through < follows[j].Pass+follows[j].Through })
	for _, f := range follows {
		p, ok := byName[f.Pass]
		if !ok {
			add(fmt.Sprintf("C18/%s/harness/unknown-follow-%s", rule.site, f.Pass), J{})
			continue
		}
		field := ""
		if f.Needs == "field" {
			if len(keptNames) == 0 {
				continue // no field both values have
			}
			field = keptNames[0]
		}
		if f.Needs == "struct" && srcA.FieldByName("Type").FieldByName("Struct").IsNil() {
			continue
		}
		pkg, obj := targetPkg, "Dup"
		if f.Through == "source" {
			pkg, obj = "pkga", "Source"
		}
		key := f.Pass + "/" + f.Through
		srcB, dupB, err := chain(p.mk(pkg, obj, "", field))
		if err != nil {
			st.FollowErr[key]++
			continue
		}
		st.FollowRuns[key]++
		flatSrcB, flatDupB := map[string]string{}, map[string]string{}
		flatten(srcB, "", flatSrcB)
		flatten(dupB, "", flatDupB)
		targetDiff, victimDiff, victim := flatDiff(flatDupA, flatDupB), flatDiff(flatSrcA, flatSrcB), "source"
		wasV, nowV := flatSrcA, flatSrcB
		if f.Through == "source" {
			targetDiff, victimDiff, victim = victimDiff, targetDiff, "duplicate"
			wasV, nowV = flatDupA, flatDupB
		}
		if len(targetDiff) > 0 {
			st.FollowEff[key]++
		}
		if len(victimDiff) > 0 {
			add(fmt.Sprintf("C18/%s/Pass-visible/%s", rule.site, firstField(victimDiff[0])),
				J{"pass": f.Pass, "aimed_at": pkg + "." + obj, "field": field, "changed_in": victim, "path": victimDiff[0],
					"without_the_pass": wasV[victimDiff[0]], "with_the_pass": nowV[victimDiff[0]]})
		}
	}
}
