package main

// Projection between cog's ast.Builders and the abstract builders of
// spec/Builders.tla. Same JSON rules as ir.go: no null, every record of a
// kind has the same fields, values are {"t","s"} records.
//
// Arg       {"name", "type":T}
// Index     {"k":"none"} | {"k":"arg","arg":Arg} | {"k":"const","val":V}
// PathItem  {"id", "type":T, "index":Index, "hint":T (k=none when absent), "root":b}
// Value     {"k":"none"} | {"k":"arg","arg":Arg} | {"k":"const","val":V}
//           | {"k":"envelope","type":T,"values":[{"path":[PathItem],"value":Value}]}
// Cons      {"arg":Arg, "op", "param":V}
// NilCheck  {"path":[PathItem], "empty":T}
// Assign    {"path":[PathItem], "value":Value, "method", "cons":[Cons], "nilchecks":[NilCheck]}
// Default   {"set":b, "vals":[V]}
// Option    {"name", "comments":[s], "args":[Arg], "assigns":[Assign], "def":Default}
// Param     {"k":"arg","arg":Arg} | {"k":"const","type":T,"val":V}
//           | {"k":"factory","ref":{"pkg","builder","factory"},"params":[Param]} | {"k":"none"}
// Factory   {"name", "comments":[s], "args":[Arg], "calls":[{"name","params":[Param]}]}
// Builder   {"pkg", "name", "for":Object, "props":[Field], "ctor":{"args":[Arg],"assigns":[Assign]},
//            "options":[Option], "factories":[Factory]}
//
// VeneerTrail (builders and options) is not part of the abstract state: no
// property mentions it.

import (
	"encoding/json"
	"fmt"

	"github.com/grafana/cog/verifapi"
)

func projArg(a verifapi.Argument) J {
	return J{"name": a.Name, "type": projType(a.Type)}
}

func projArgs(as []verifapi.Argument) []any {
	out := make([]any, 0, len(as))
	for _, a := range as {
		out = append(out, projArg(a))
	}
	return out
}

func projIndex(ix *verifapi.PathIndex) J {
	if ix == nil {
		return J{"k": "none"}
	}
	if ix.Argument != nil {
		return J{"k": "arg", "arg": projArg(*ix.Argument)}
	}
	return J{"k": "const", "val": projVal(ix.Constant)}
}

func projPath(p verifapi.Path) []any {
	out := make([]any, 0, len(p))
	for _, it := range p {
		hint := J{"k": "none"}
		if it.TypeHint != nil {
			hint = projType(*it.TypeHint)
		}
		out = append(out, J{"id": it.Identifier, "type": projType(it.Type), "index": projIndex(it.Index), "hint": hint, "root": it.Root})
	}
	return out
}

func projValue(v verifapi.AssignmentValue) J {
	switch {
	case v.Argument != nil:
		return J{"k": "arg", "arg": projArg(*v.Argument)}
	case v.Envelope != nil:
		vals := make([]any, 0, len(v.Envelope.Values))
		for _, ev := range v.Envelope.Values {
			vals = append(vals, J{"path": projPath(ev.Path), "value": projValue(ev.Value)})
		}
		return J{"k": "envelope", "type": projType(v.Envelope.Type), "values": vals}
	case v.Constant != nil:
		return J{"k": "const", "val": projVal(v.Constant)}
	}
	return J{"k": "none"}
}

func projAssign(a verifapi.Assignment) J {
	cons := make([]any, 0, len(a.Constraints))
	for _, c := range a.Constraints {
		cons = append(cons, J{"arg": projArg(c.Argument), "op": string(c.Op), "param": projVal(c.Parameter)})
	}
	nc := make([]any, 0, len(a.NilChecks))
	for _, c := range a.NilChecks {
		nc = append(nc, J{"path": projPath(c.Path), "empty": projType(c.EmptyValueType)})
	}
	return J{"path": projPath(a.Path), "value": projValue(a.Value), "method": string(a.Method), "cons": cons, "nilchecks": nc}
}

func projAssigns(as []verifapi.Assignment) []any {
	out := make([]any, 0, len(as))
	for _, a := range as {
		out = append(out, projAssign(a))
	}
	return out
}

func projOption(o verifapi.Option) J {
	def := J{"set": false, "vals": []any{}}
	if o.Default != nil {
		vals := make([]any, 0, len(o.Default.ArgsValues))
		for _, v := range o.Default.ArgsValues {
			vals = append(vals, projVal(v))
		}
		def = J{"set": true, "vals": vals}
	}
	return J{"name": o.Name, "comments": projStrings(o.Comments), "args": projArgs(o.Args), "assigns": projAssigns(o.Assignments), "def": def}
}

func projParam(p verifapi.OptionCallParameter) J {
	switch {
	case p.Argument != nil:
		return J{"k": "arg", "arg": projArg(*p.Argument)}
	case p.Constant != nil:
		return J{"k": "const", "type": projType(p.Constant.Type), "val": projVal(p.Constant.Value)}
	case p.Factory != nil:
		return J{"k": "factory", "ref": J{"pkg": p.Factory.Ref.Package, "builder": p.Factory.Ref.Builder, "factory": p.Factory.Ref.Factory},
			"params": projParams(p.Factory.Parameters)}
	}
	return J{"k": "none"}
}

func projParams(ps []verifapi.OptionCallParameter) []any {
	out := make([]any, 0, len(ps))
	for _, p := range ps {
		out = append(out, projParam(p))
	}
	return out
}

func projFactory(f verifapi.BuilderFactory) J {
	calls := make([]any, 0, len(f.OptionCalls))
	for _, c := range f.OptionCalls {
		calls = append(calls, J{"name": c.Name, "params": projParams(c.Parameters)})
	}
	return J{"name": f.Name, "comments": projStrings(f.Comments), "args": projArgs(f.Args), "calls": calls}
}

func projFields(fs []verifapi.StructField) []any {
	out := make([]any, 0, len(fs))
	for _, f := range fs {
		out = append(out, J{"name": f.Name, "type": projType(f.Type), "required": f.Required, "comments": projStrings(f.Comments)})
	}
	return out
}

func projBuilder(b verifapi.Builder) J {
	opts := make([]any, 0, len(b.Options))
	for _, o := range b.Options {
		opts = append(opts, projOption(o))
	}
	facts := make([]any, 0, len(b.Factories))
	for _, f := range b.Factories {
		facts = append(facts, projFactory(f))
	}
	return J{"pkg": b.Package, "name": b.Name, "for": projObject(b.For), "props": projFields(b.Properties),
		"ctor":    J{"args": projArgs(b.Constructor.Args), "assigns": projAssigns(b.Constructor.Assignments)},
		"options": opts, "factories": facts}
}

func projBuilders(bs []verifapi.Builder) []any {
	out := make([]any, 0, len(bs))
	for _, b := range bs {
		out = append(out, projBuilder(b))
	}
	return out
}

// ---------------------------------------------------------------- unproject

func unprojArg(j J) (verifapi.Argument, error) {
	t, err := unprojType(jmap(j["type"]))
	return verifapi.Argument{Name: jstr(j["name"]), Type: t}, err
}

func unprojArgs(v any) ([]verifapi.Argument, error) {
	var out []verifapi.Argument
	for _, x := range jlist(v) {
		a, err := unprojArg(jmap(x))
		if err != nil {
			return nil, err
		}
		out = append(out, a)
	}
	return out, nil
}

func unprojPath(v any) (verifapi.Path, error) {
	var out verifapi.Path
	for _, x := range jlist(v) {
		m := jmap(x)
		t, err := unprojType(jmap(m["type"]))
		if err != nil {
			return nil, err
		}
		it := verifapi.PathItem{Identifier: jstr(m["id"]), Type: t, Root: jbool(m["root"])}
		if h := jmap(m["hint"]); h != nil && jstr(h["k"]) != "none" {
			ht, err := unprojType(h)
			if err != nil {
				return nil, err
			}
			it.TypeHint = &ht
		}
		ix := jmap(m["index"])
		switch jstr(ix["k"]) {
		case "arg":
			a, err := unprojArg(jmap(ix["arg"]))
			if err != nil {
				return nil, err
			}
			it.Index = &verifapi.PathIndex{Argument: &a}
		case "const":
			c, err := unprojVal(jmap(ix["val"]))
			if err != nil {
				return nil, err
			}
			it.Index = &verifapi.PathIndex{Constant: c}
		}
		out = append(out, it)
	}
	return out, nil
}

func unprojValue(j J) (verifapi.AssignmentValue, error) {
	switch jstr(j["k"]) {
	case "arg":
		a, err := unprojArg(jmap(j["arg"]))
		return verifapi.AssignmentValue{Argument: &a}, err
	case "const":
		c, err := unprojVal(jmap(j["val"]))
		return verifapi.AssignmentValue{Constant: c}, err
	case "envelope":
		t, err := unprojType(jmap(j["type"]))
		if err != nil {
			return verifapi.AssignmentValue{}, err
		}
		env := &verifapi.AssignmentEnvelope{Type: t}
		for _, x := range jlist(j["values"]) {
			p, err := unprojPath(jmap(x)["path"])
			if err != nil {
				return verifapi.AssignmentValue{}, err
			}
			v, err := unprojValue(jmap(jmap(x)["value"]))
			if err != nil {
				return verifapi.AssignmentValue{}, err
			}
			env.Values = append(env.Values, verifapi.EnvelopeFieldValue{Path: p, Value: v})
		}
		return verifapi.AssignmentValue{Envelope: env}, nil
	case "none":
		return verifapi.AssignmentValue{}, nil
	}
	return verifapi.AssignmentValue{}, fmt.Errorf("unproject: unknown assignment value kind %q", jstr(j["k"]))
}

func unprojAssigns(v any) ([]verifapi.Assignment, error) {
	var out []verifapi.Assignment
	for _, x := range jlist(v) {
		m := jmap(x)
		p, err := unprojPath(m["path"])
		if err != nil {
			return nil, err
		}
		val, err := unprojValue(jmap(m["value"]))
		if err != nil {
			return nil, err
		}
		a := verifapi.Assignment{Path: p, Value: val, Method: verifapi.AssignmentMethod(jstr(m["method"]))}
		for _, c := range jlist(m["cons"]) {
			cm := jmap(c)
			arg, err := unprojArg(jmap(cm["arg"]))
			if err != nil {
				return nil, err
			}
			param, err := unprojVal(jmap(cm["param"]))
			if err != nil {
				return nil, err
			}
			a.Constraints = append(a.Constraints, verifapi.AssignmentConstraint{Argument: arg, Op: verifapi.Op(jstr(cm["op"])), Parameter: param})
		}
		for _, c := range jlist(m["nilchecks"]) {
			cm := jmap(c)
			cp, err := unprojPath(cm["path"])
			if err != nil {
				return nil, err
			}
			et, err := unprojType(jmap(cm["empty"]))
			if err != nil {
				return nil, err
			}
			a.NilChecks = append(a.NilChecks, verifapi.AssignmentNilCheck{Path: cp, EmptyValueType: et})
		}
		out = append(out, a)
	}
	return out, nil
}

func unprojOption(j J) (verifapi.Option, error) {
	args, err := unprojArgs(j["args"])
	if err != nil {
		return verifapi.Option{}, err
	}
	as, err := unprojAssigns(j["assigns"])
	if err != nil {
		return verifapi.Option{}, err
	}
	o := verifapi.Option{Name: jstr(j["name"]), Comments: jstrings(j["comments"]), Args: args, Assignments: as}
	if d := jmap(j["def"]); d != nil && jbool(d["set"]) {
		o.Default = &verifapi.OptionDefault{}
		for _, v := range jlist(d["vals"]) {
			x, err := unprojVal(jmap(v))
			if err != nil {
				return o, err
			}
			o.Default.ArgsValues = append(o.Default.ArgsValues, x)
		}
	}
	return o, nil
}

func unprojParams(v any) ([]verifapi.OptionCallParameter, error) {
	var out []verifapi.OptionCallParameter
	for _, x := range jlist(v) {
		m := jmap(x)
		switch jstr(m["k"]) {
		case "arg":
			a, err := unprojArg(jmap(m["arg"]))
			if err != nil {
				return nil, err
			}
			out = append(out, verifapi.OptionCallParameter{Argument: &a})
		case "const":
			t, err := unprojType(jmap(m["type"]))
			if err != nil {
				return nil, err
			}
			c, err := unprojVal(jmap(m["val"]))
			if err != nil {
				return nil, err
			}
			out = append(out, verifapi.OptionCallParameter{Constant: &verifapi.TypedConstant{Type: t, Value: c}})
		case "factory":
			r := jmap(m["ref"])
			ps, err := unprojParams(m["params"])
			if err != nil {
				return nil, err
			}
			out = append(out, verifapi.OptionCallParameter{Factory: &verifapi.FactoryCall{
				Ref:        verifapi.FactoryRef{Package: jstr(r["pkg"]), Builder: jstr(r["builder"]), Factory: jstr(r["factory"])},
				Parameters: ps}})
		default:
			out = append(out, verifapi.OptionCallParameter{})
		}
	}
	return out, nil
}

func unprojFactory(j J) (verifapi.BuilderFactory, error) {
	args, err := unprojArgs(j["args"])
	if err != nil {
		return verifapi.BuilderFactory{}, err
	}
	f := verifapi.BuilderFactory{Name: jstr(j["name"]), Comments: jstrings(j["comments"]), Args: args}
	for _, c := range jlist(j["calls"]) {
		ps, err := unprojParams(jmap(c)["params"])
		if err != nil {
			return f, err
		}
		f.OptionCalls = append(f.OptionCalls, verifapi.OptionCall{Name: jstr(jmap(c)["name"]), Parameters: ps})
	}
	return f, nil
}

func unprojBuilder(j J) (verifapi.Builder, error) {
	obj, err := unprojObject(jmap(j["for"]))
	if err != nil {
		return verifapi.Builder{}, err
	}
	b := verifapi.Builder{For: obj, Package: jstr(j["pkg"]), Name: jstr(j["name"])}
	if props := jlist(j["props"]); len(props) > 0 {
		if b.Properties, err = unprojFields(props); err != nil {
			return b, err
		}
	}
	ctor := jmap(j["ctor"])
	if b.Constructor.Args, err = unprojArgs(ctor["args"]); err != nil {
		return b, err
	}
	if b.Constructor.Assignments, err = unprojAssigns(ctor["assigns"]); err != nil {
		return b, err
	}
	for _, o := range jlist(j["options"]) {
		opt, err := unprojOption(jmap(o))
		if err != nil {
			return b, err
		}
		b.Options = append(b.Options, opt)
	}
	for _, f := range jlist(j["factories"]) {
		fa, err := unprojFactory(jmap(f))
		if err != nil {
			return b, err
		}
		b.Factories = append(b.Factories, fa)
	}
	return b, nil
}

func unprojBuilders(v any) (verifapi.Builders, error) {
	out := verifapi.Builders{}
	for _, x := range jlist(v) {
		b, err := unprojBuilder(jmap(x))
		if err != nil {
			return nil, err
		}
		out = append(out, b)
	}
	return out, nil
}

// canonJ renders a value made of maps, slices and scalars canonically:
// encoding/json already writes map keys in sorted order.
func canonJ(v any) string {
	raw, err := json.Marshal(v)
	if err != nil {
		return fmt.Sprintf("!%v", err)
	}
	return string(raw)
}
