package main

import (
	"bufio"
	"bytes"
	"encoding/json"
	"flag"
	"fmt"
	"math/rand"
	"os"
	"sort"
	"strings"

	"github.com/grafana/cog/verifapi"
)

func init() {
	commands["c19-replay"] = c19Replay
	commands["c19-random"] = c19Random
}

type c19Pair struct {
	K string `json:"k"`
	V int    `json:"v"`
}

type c19Op struct {
	Op   string `json:"op"`
	K    string `json:"k,omitempty"`
	V    int    `json:"v,omitempty"`
	By   string `json:"by,omitempty"`
	Doc  int    `json:"doc,omitempty"`
	Keep int    `json:"keep,omitempty"`
	// random driver only: literal document for unmarshal
	Pairs []c19Pair `json:"pairs,omitempty"`
}

type c19Hist struct {
	Hist []c19Op   `json:"hist"`
	M    []c19Pair `json:"m"`
	Old  []c19Pair `json:"old"`
}

// the documents of OrderedMapHistMC.tla (MCDocs), 1-based there
var c19Docs = [][]c19Pair{
	{{"b", 3}, {"c", 0}},
	{{"c", 3}, {"", 3}, {"b", 0}},
}

// Key realisation: the specification's keys are abstract; the binding chooses the concrete string that stands
// for each. In the "escaped" form every key carries a suffix of characters that JSON must escape or that Go and JSON
// quote differently (control characters, DEL, quote, backslash, angle bracket, U+2028, a non-ASCII letter, an
// unassigned-plane rune), so the encode/decode operations of the map are exercised on keys that need escaping.
// ck: abstract -> concrete, ak: concrete -> abstract.
var c19Suffix = ""

const c19EscapedSuffix = "\x01\a\v\x7f\"\\<&\u2028\u00e9\U000e0001"

func ck(k string) string { return k + c19Suffix }
func ak(k string) string { return strings.TrimSuffix(k, c19Suffix) }

func c19DocText(pairs []c19Pair) string {
	parts := make([]string, 0, len(pairs))
	for _, p := range pairs {
		kj, _ := json.Marshal(ck(p.K))
		parts = append(parts, fmt.Sprintf("%s: %d", kj, p.V))
	}
	return "{" + strings.Join(parts, ", ") + "}"
}

var c19Rank = map[string]int{"": 1, "a": 1, "b": 2, "c": 3}

func c19RankOf(k string) int {
	if r, ok := c19Rank[k]; ok {
		return r
	}
	// random driver: keys k00..k11
	var n int
	fmt.Sscanf(k, "k%d", &n)
	return 100 + n
}

// c19Apply performs one operation on the real map; derived-map operations
// return the derived map (after checking that the receiver did not change).
func c19Apply(m *verifapi.IntMap, op c19Op) (res *verifapi.IntMap, failure string) {
	defer func() {
		if r := recover(); r != nil {
			res, failure = m, fmt.Sprintf("panic/%s: %v", op.Op, r)
		}
	}()
	switch op.Op {
	case "set":
		m.Set(ck(op.K), op.V)
	case "remove":
		m.Remove(ck(op.K))
	case "sort":
		switch op.By {
		case "asc":
			m.Sort(func(i, j string) bool { return c19RankOf(ak(i)) < c19RankOf(ak(j)) })
		case "desc":
			m.Sort(func(i, j string) bool { return c19RankOf(ak(i)) > c19RankOf(ak(j)) })
		case "cfirst":
			m.Sort(func(i, j string) bool { return ak(i) == "c" && ak(j) != "c" })
		case "coarse":
			m.Sort(func(i, j string) bool { return (c19RankOf(ak(i))-100)%3 < (c19RankOf(ak(j))-100)%3 })
		}
	case "unmarshal":
		pairs := op.Pairs
		if op.Doc > 0 {
			pairs = c19Docs[op.Doc-1]
		}
		if err := m.UnmarshalJSON([]byte(c19DocText(pairs))); err != nil {
			return m, "unmarshal/error: " + err.Error()
		}
	case "filter":
		before := c19Observe(m)
		d := m.Filter(func(_ string, v int) bool { return v == op.Keep })
		if d == m {
			return m, "filter/returns-receiver"
		}
		if !c19PairsEqual(before, c19Observe(m)) {
			return m, "filter/receiver-changed"
		}
		// (aliasing between the derived map and the receiver is judged by the operations that
		// follow on either of them: see `old` in OrderedMapHist.tla; probing here would un-share storage)
		return d, ""
	case "map":
		before := c19Observe(m)
		d := m.Map(func(k string, v int) int {
			if ak(k) == op.K {
				return 3 - v
			}
			return v
		})
		if d == m {
			return m, "map/returns-receiver"
		}
		if !c19PairsEqual(before, c19Observe(m)) {
			return m, "map/receiver-changed"
		}
		return d, ""
	default:
		return m, "harness/unknown-op " + op.Op
	}
	return m, ""
}

func c19Observe(m *verifapi.IntMap) []c19Pair {
	out := []c19Pair{}
	m.Iterate(func(k string, v int) { out = append(out, c19Pair{ak(k), v}) })
	return out
}

func c19PairsEqual(a, b []c19Pair) bool {
	if len(a) != len(b) {
		return false
	}
	for i := range a {
		if a[i] != b[i] {
			return false
		}
	}
	return true
}

// c19Compare checks every observer of the real map against the expected
// abstract state. It returns "" or the name of the first observer that differs.
func c19Compare(m *verifapi.IntMap, want []c19Pair, alphabet []string) (failure string) {
	defer func() {
		if r := recover(); r != nil {
			failure = fmt.Sprintf("panic/observer: %v", r)
		}
	}()
	got := c19Observe(m)
	if !c19PairsEqual(got, want) {
		return fmt.Sprintf("iterate: got %v want %v", got, want)
	}
	if m.Len() != len(want) {
		return fmt.Sprintf("len: got %d want %d", m.Len(), len(want))
	}
	vals := m.Values()
	if len(vals) != len(want) {
		return fmt.Sprintf("values: got %v", vals)
	}
	for i, p := range want {
		if vals[i] != p.V {
			return fmt.Sprintf("values: got %v want %v", vals, want)
		}
		if m.At(i) != p.V {
			return fmt.Sprintf("at(%d): got %v", i, m.At(i))
		}
	}
	wantMap := map[string]int{}
	for _, p := range want {
		wantMap[p.K] = p.V
	}
	for _, k := range alphabet {
		v, has := wantMap[k]
		if m.Has(ck(k)) != has {
			return fmt.Sprintf("has(%s): got %v", k, m.Has(ck(k)))
		}
		if m.Get(ck(k)) != v { // zero value for a missing key
			return fmt.Sprintf("get(%s): got %v want %v", k, m.Get(ck(k)), v)
		}
	}
	// MarshalJSON: a JSON object whose members are the pairs in order
	raw, err := m.MarshalJSON()
	if err != nil {
		return "marshal: " + err.Error()
	}
	dec := json.NewDecoder(bytes.NewReader(raw))
	tok, err := dec.Token()
	if err != nil || tok != json.Delim('{') {
		return fmt.Sprintf("marshal: not an object: %s", raw)
	}
	var decoded []c19Pair
	for dec.More() {
		kt, err := dec.Token()
		if err != nil {
			return fmt.Sprintf("marshal: invalid JSON %q: %v", raw, err)
		}
		var v int
		if err := dec.Decode(&v); err != nil {
			return fmt.Sprintf("marshal: invalid JSON %q: %v", raw, err)
		}
		decoded = append(decoded, c19Pair{ak(kt.(string)), v})
	}
	if _, err := dec.Token(); err != nil {
		return fmt.Sprintf("marshal: invalid JSON %q: %v", raw, err)
	}
	if !json.Valid(raw) {
		return fmt.Sprintf("marshal: invalid JSON %q", raw)
	}
	if !c19PairsEqual(decoded, want) && !(len(decoded) == 0 && len(want) == 0) {
		return fmt.Sprintf("marshal: got %s want %v", raw, want)
	}
	// round trip into a fresh map reproduces the state
	fresh := verifapi.NewIntMap()
	if err := fresh.UnmarshalJSON(raw); err != nil {
		return "roundtrip: " + err.Error()
	}
	if !c19PairsEqual(c19Observe(fresh), want) {
		return fmt.Sprintf("roundtrip: got %v want %v", c19Observe(fresh), want)
	}
	// representation invariant (hook H4): order lists exactly the keys of records, once each
	order, recs := m.VerifState()
	if len(order) != len(recs) {
		return fmt.Sprintf("bijection: order %v records %v", order, recs)
	}
	seen := map[string]bool{}
	for _, k := range order {
		if seen[k] {
			return fmt.Sprintf("bijection: duplicate %s in order %v", k, order)
		}
		seen[k] = true
	}
	for _, k := range recs {
		if !seen[k] {
			return fmt.Sprintf("bijection: %s in records but not in order", k)
		}
	}
	return ""
}

type c19Result struct {
	I       int       `json:"i"`
	Failure string    `json:"failure"`
	Step    int       `json:"step"`
	Hist    []c19Op   `json:"hist"`
	M       []c19Pair `json:"m"`
}

// c19RunHistory replays hist from New(); when checkAll is false only the last
// step is compared with want (all prefixes are separate histories).
func c19RunHistory(h c19Hist, alphabet []string) (int, string) {
	m := verifapi.NewIntMap()
	old := verifapi.NewIntMap() // the receiver a filter/map left behind (initially an unrelated empty map)
	for i, op := range h.Hist {
		var f string
		switch op.Op {
		case "oldsort":
			_, f = c19Apply(old, c19Op{Op: "sort", By: "desc"})
		case "oldset":
			_, f = c19Apply(old, c19Op{Op: "set", K: op.K, V: op.V})
		case "filter", "map":
			prev := m
			m, f = c19Apply(m, op)
			if f == "" {
				old = prev
			}
		default:
			m, f = c19Apply(m, op)
		}
		if f != "" {
			return i, f
		}
	}
	if f := c19Compare(m, h.M, alphabet); f != "" {
		return len(h.Hist) - 1, f
	}
	if f := c19Compare(old, h.Old, alphabet); f != "" {
		return len(h.Hist) - 1, "derived-not-fresh/" + f
	}
	return len(h.Hist) - 1, ""
}

func c19Replay(args []string) int {
	fs := flag.NewFlagSet("c19-replay", flag.ExitOnError)
	keyform := fs.String("keyform", "plain", "plain | escaped: concrete realisation of the abstract keys")
	_ = fs.Parse(args)
	if *keyform == "escaped" {
		c19Suffix = c19EscapedSuffix
	}
	in := bufio.NewReaderSize(os.Stdin, 1<<20)
	out := bufio.NewWriter(os.Stdout)
	defer out.Flush()
	enc := json.NewEncoder(out)
	n, bad := 0, 0
	alphabet := []string{"", "b", "c", "zz"}
	for {
		line, err := in.ReadBytes('\n')
		if len(bytes.TrimSpace(line)) > 0 {
			var h c19Hist
			if jerr := json.Unmarshal(line, &h); jerr != nil {
				fmt.Fprintf(os.Stderr, "bad input line: %v\n", jerr)
				return 2
			}
			step, f := c19RunHistory(h, alphabet)
			if f != "" {
				bad++
				_ = enc.Encode(c19Result{I: n, Failure: f, Step: step, Hist: h.Hist, M: h.M})
			}
			n++
		}
		if err != nil {
			break
		}
	}
	_ = enc.Encode(map[string]int{"replayed": n, "failed": bad})
	return 0
}

// c19Random drives the real map with random long histories over 12 keys and
// records one trace record per operation (op + observed state afterwards);
// the trace is validated by TLC against OrderedMapTrace.tla.
func c19Random(args []string) int {
	fs := flag.NewFlagSet("c19-random", flag.ExitOnError)
	seed := fs.Int64("seed", 1, "seed")
	traces := fs.Int("traces", 50, "number of histories")
	length := fs.Int("len", 200, "operations per history")
	_ = fs.Parse(args)
	rng := rand.New(rand.NewSource(*seed))
	out := bufio.NewWriter(os.Stdout)
	defer out.Flush()
	enc := json.NewEncoder(out)
	keys := make([]string, 24)
	for i := range keys {
		keys[i] = fmt.Sprintf("k%02d", i)
	}
	for t := 0; t < *traces; t++ {
		// every other history runs on keys that need JSON escaping (see ck/ak)
		c19Suffix = ""
		if t%2 == 1 {
			c19Suffix = c19EscapedSuffix
		}
		m := verifapi.NewIntMap()
		var shadow *verifapi.IntMap // receiver left behind by the last filter/map
		var shadowObs []c19Pair
		_ = enc.Encode(map[string]any{"ev": "reset"})
		nkeys := 2 + rng.Intn(len(keys)-1)
		if t%3 == 0 {
			nkeys = 14 + rng.Intn(len(keys)-13) // many keys: sort implementations switch algorithm with size
		}
		for i := 0; i < *length; i++ {
			var op c19Op
			switch r := rng.Intn(20); {
			case r < 8:
				op = c19Op{Op: "set", K: keys[rng.Intn(nkeys)], V: rng.Intn(4)}
			case r < 13:
				op = c19Op{Op: "remove", K: keys[rng.Intn(nkeys)]}
			case r < 15:
				op = c19Op{Op: "sort", By: []string{"asc", "desc", "coarse"}[rng.Intn(3)]}
			case r < 17:
				op = c19Op{Op: "filter", Keep: rng.Intn(4)}
			case r < 18:
				op = c19Op{Op: "map", K: keys[rng.Intn(nkeys)]}
			default:
				n := rng.Intn(4)
				for j := 0; j < n; j++ {
					op.Pairs = append(op.Pairs, c19Pair{keys[rng.Intn(nkeys)], rng.Intn(4)})
				}
				// a JSON document cannot usefully repeat a key for this purpose; dedupe (last wins in place)
				seen := map[string]int{}
				dedup := []c19Pair{}
				for _, p := range op.Pairs {
					if idx, ok := seen[p.K]; ok {
						dedup[idx].V = p.V
						continue
					}
					seen[p.K] = len(dedup)
					dedup = append(dedup, p)
				}
				op.Pairs = dedup
				op.Op = "unmarshal"
			}
			var f string
			prev := m
			m, f = c19Apply(m, op)
			if f == "" && (op.Op == "filter" || op.Op == "map") {
				shadow, shadowObs = prev, c19Observe(prev)
			}
			if f == "" && shadow != nil {
				// derived maps are fresh values: nothing done to the current map shows in the receiver left behind ...
				if !c19PairsEqual(c19Observe(shadow), shadowObs) {
					f = "derived-not-fresh/receiver changed by an operation on the derived map"
				} else if rng.Intn(4) == 0 {
					// ... and nothing done to that receiver shows in the current map
					before := c19Observe(m)
					if rng.Intn(2) == 0 {
						shadow.Sort(func(i, j string) bool { return c19RankOf(ak(i)) > c19RankOf(ak(j)) })
					} else {
						shadow.Set(ck(keys[rng.Intn(len(keys))]), 7)
					}
					shadowObs = c19Observe(shadow)
					if !c19PairsEqual(c19Observe(m), before) {
						f = "derived-not-fresh/derived map changed by an operation on the receiver"
					}
				}
			}
			obs := []c19Pair{}
			if f == "" {
				obs = c19Observe(m)
				// also compare the other observers with the iterate view (internal consistency);
				// the iterate view itself is judged by TLC
				f = c19Compare(m, obs, keys)
			}
			rec := map[string]any{"ev": "op", "op": op.Op, "k": op.K, "v": op.V, "by": op.By, "keep": op.Keep,
				"pairs": op.Pairs, "post": obs, "failure": f}
			if op.Pairs == nil {
				rec["pairs"] = []c19Pair{}
			}
			_ = enc.Encode(rec)
			if f != "" {
				break
			}
		}
	}
	return 0
}

var _ = sort.Strings
