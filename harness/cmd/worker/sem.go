package main

// Generated-code batch pipeline, Go side (DESIGN 4.5). Shared by C01, C08, C13 and the later
// Semantics.tla properties (C02, C09-C12, C14). Two sub-commands, both ndjson in / ndjson out:
//
//   sem-gen       one job per line {"id","yaml","root"}: run the REAL codegen.Pipeline described by
//                 the YAML file (PipelineFromFile + Run) and write the files under <root>. One
//                 record per job: {"id","ok","err","panic","files":[...],"ms"}. A panic inside cog is
//                 recovered and reported (C04's business), it never aborts the batch.
//   sem-validate  one job per line {"id","fmt":"openapi"|"cue","schema":<text>,"root":"Root",
//                 "docs":[<json>...]}: the reference validators that live in cog's module graph
//                 (kin-openapi Schema.VisitJSON, CUE Unify+Validate(Concrete)). One record per job:
//                 {"id","schema_err","accepts":[bool...],"errs":[string...]}.
//
// JSON Schema documents are judged by python `jsonschema` (Draft7) in checks/semantics_common.py.

import (
	"bufio"
	"bytes"
	"context"
	"encoding/json"
	"flag"
	"fmt"
	"os"
	"runtime/debug"
	"sort"
	"strings"
	"time"

	"cuelang.org/go/cue"
	"cuelang.org/go/cue/cuecontext"
	"github.com/getkin/kin-openapi/openapi3"
	"github.com/grafana/cog/verifapi"
)

func init() {
	commands["sem-gen"] = semGen
	commands["sem-validate"] = semValidate
}

type semGenJob struct {
	ID   string `json:"id"`
	YAML string `json:"yaml"`
	Root string `json:"root"`
}

type semGenResult struct {
	ID    string   `json:"id"`
	OK    bool     `json:"ok"`
	Err   string   `json:"err,omitempty"`
	Panic string   `json:"panic,omitempty"`
	Files []string `json:"files,omitempty"`
	Ms    float64  `json:"ms"`
}

func semGenOne(job semGenJob) (res semGenResult) {
	res.ID = job.ID
	t0 := time.Now()
	defer func() {
		res.Ms = float64(time.Since(t0).Microseconds()) / 1000
		if r := recover(); r != nil {
			res.OK = false
			res.Panic = fmt.Sprintf("%v\n%s", r, topFrames(string(debug.Stack()), 12))
		}
	}()
	// the CLI passes codegen.Parameters(...) too: it is what triggers %param% interpolation
	pipeline, err := verifapi.PipelineFromFile(job.YAML, verifapi.PipelineParameters(map[string]string{}))
	if err != nil {
		res.Err = "config: " + err.Error()
		return res
	}
	fs, err := pipeline.Run(context.Background())
	if err != nil {
		res.Err = err.Error()
		return res
	}
	for _, f := range fs.AsFiles() {
		res.Files = append(res.Files, f.RelativePath)
	}
	sort.Strings(res.Files)
	if err := fs.Write(context.Background(), job.Root); err != nil {
		res.Err = "write: " + err.Error()
		return res
	}
	res.OK = true
	return res
}

// topFrames keeps the cog frames of a stack dump (signature material for C04).
func topFrames(stack string, n int) string {
	var out []string
	for _, l := range strings.Split(stack, "\n") {
		if strings.Contains(l, "github.com/grafana/cog/") && !strings.HasPrefix(l, "\t") {
			out = append(out, l)
			if len(out) >= n {
				break
			}
		}
	}
	return strings.Join(out, "\n")
}

func semGen(args []string) int {
	fl := flag.NewFlagSet("sem-gen", flag.ExitOnError)
	_ = fl.Parse(args)
	in := bufio.NewScanner(os.Stdin)
	in.Buffer(make([]byte, 1<<20), 1<<26)
	out := bufio.NewWriter(os.Stdout)
	defer out.Flush()
	enc := json.NewEncoder(out)
	for in.Scan() {
		if len(bytes.TrimSpace(in.Bytes())) == 0 {
			continue
		}
		var job semGenJob
		if err := json.Unmarshal(in.Bytes(), &job); err != nil {
			fmt.Fprintln(os.Stderr, "sem-gen: bad job:", err)
			return 2
		}
		_ = enc.Encode(semGenOne(job))
	}
	return 0
}

type semValJob struct {
	ID     string            `json:"id"`
	Fmt    string            `json:"fmt"`
	Schema string            `json:"schema"`
	Path   string            `json:"path"` // openapi: load from this file instead (schemas referring to a sibling file)
	Root   string            `json:"root"`
	Docs   []json.RawMessage `json:"docs"`
}

type semValResult struct {
	ID        string   `json:"id"`
	SchemaErr string   `json:"schema_err,omitempty"`
	Accepts   []bool   `json:"accepts"`
	Errs      []string `json:"errs"`
}

func semValidateOne(job semValJob) (res semValResult) {
	res.ID = job.ID
	res.Accepts = make([]bool, len(job.Docs))
	res.Errs = make([]string, len(job.Docs))
	defer func() {
		if r := recover(); r != nil {
			res.SchemaErr = fmt.Sprintf("panic in reference validator: %v", r)
		}
	}()
	switch job.Fmt {
	case "openapi":
		loader := openapi3.NewLoader()
		var doc *openapi3.T
		var err error
		if job.Path != "" {
			loader.IsExternalRefsAllowed = true
			doc, err = loader.LoadFromFile(job.Path)
		} else {
			doc, err = loader.LoadFromData([]byte(job.Schema))
		}
		if err != nil {
			res.SchemaErr = err.Error()
			return res
		}
		if err := doc.Validate(context.Background(), openapi3.DisableExamplesValidation()); err != nil {
			res.SchemaErr = err.Error()
			return res
		}
		ref := doc.Components.Schemas[job.Root]
		if ref == nil || ref.Value == nil {
			res.SchemaErr = "no such component schema: " + job.Root
			return res
		}
		for i, raw := range job.Docs {
			var v any
			if err := json.Unmarshal(raw, &v); err != nil {
				res.Errs[i] = "not json: " + err.Error()
				continue
			}
			if err := ref.Value.VisitJSON(v, openapi3.EnableFormatValidation()); err != nil {
				res.Errs[i] = firstLine(err.Error())
				continue
			}
			res.Accepts[i] = true
		}
	case "cue":
		ctx := cuecontext.New()
		sv := ctx.CompileString(job.Schema)
		if sv.Err() != nil {
			res.SchemaErr = sv.Err().Error()
			return res
		}
		root := sv.LookupPath(cue.ParsePath(job.Root))
		if !root.Exists() {
			root = sv.LookupPath(cue.ParsePath("#" + job.Root))
		}
		if !root.Exists() {
			res.SchemaErr = "no such cue field: " + job.Root
			return res
		}
		for i, raw := range job.Docs {
			dv := ctx.CompileBytes(raw)
			if dv.Err() != nil {
				res.Errs[i] = "not cue: " + dv.Err().Error()
				continue
			}
			u := root.Unify(dv)
			if err := u.Validate(cue.Concrete(true)); err != nil {
				res.Errs[i] = firstLine(err.Error())
				continue
			}
			res.Accepts[i] = true
		}
	default:
		res.SchemaErr = "unknown format " + job.Fmt
	}
	return res
}

func firstLine(s string) string {
	if i := strings.IndexByte(s, '\n'); i >= 0 {
		s = s[:i]
	}
	if len(s) > 300 {
		s = s[:300]
	}
	return s
}

func semValidate(args []string) int {
	in := bufio.NewScanner(os.Stdin)
	in.Buffer(make([]byte, 1<<20), 1<<28)
	out := bufio.NewWriter(os.Stdout)
	defer out.Flush()
	enc := json.NewEncoder(out)
	for in.Scan() {
		if len(bytes.TrimSpace(in.Bytes())) == 0 {
			continue
		}
		var job semValJob
		if err := json.Unmarshal(in.Bytes(), &job); err != nil {
			fmt.Fprintln(os.Stderr, "sem-validate: bad job:", err)
			return 2
		}
		_ = enc.Encode(semValidateOne(job))
	}
	return 0
}
