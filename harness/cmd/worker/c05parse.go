package main

// C05(a): what the REAL parsers produce. One job per line {"id","fmt","yaml"}: the pipeline YAML names one input
// (JSON Schema / OpenAPI / CUE file rendered from a catalogue schema); Pipeline.LoadSchemas parses it (parse +
// consolidate + common passes) and the projected schemas are written as one trace record for ParsersTrace.tla.

import (
	"bufio"
	"context"
	"encoding/json"
	"fmt"
	"os"

	"github.com/grafana/cog/verifapi"
)

func init() {
	commands["c05-parse"] = func(args []string) int {
		in := bufio.NewScanner(os.Stdin)
		in.Buffer(make([]byte, 1<<20), 1<<26)
		out := bufio.NewWriter(os.Stdout)
		defer out.Flush()
		for in.Scan() {
			var job struct {
				ID   int    `json:"id"`
				Fmt  string `json:"fmt"`
				YAML string `json:"yaml"`
				Tag  string `json:"tag"`
			}
			if err := json.Unmarshal(in.Bytes(), &job); err != nil {
				fmt.Fprintln(os.Stderr, err)
				return 2
			}
			rec := J{"id": job.ID, "fmt": job.Fmt, "tag": job.Tag, "err": false, "error": "", "post": []any{}}
			func() {
				defer func() {
					if r := recover(); r != nil {
						rec["err"] = true
						rec["error"] = fmt.Sprintf("panic: %v", r)
					}
				}()
				pipeline, err := verifapi.PipelineFromFile(job.YAML, verifapi.PipelineParameters(map[string]string{}))
				if err != nil {
					rec["err"] = true
					rec["error"] = "config: " + err.Error()
					return
				}
				schemas, err := pipeline.LoadSchemas(context.Background())
				if err != nil {
					rec["err"] = true
					rec["error"] = err.Error()
					return
				}
				rec["post"] = normalize(projSchemas(schemas))
			}()
			raw, _ := json.Marshal(rec)
			out.Write(raw)
			out.WriteByte('\n')
		}
		return 0
	}
}
