package main

// C06 / C05(b): run the REAL transformation chain of every language
// (codegen.Pipeline.ContextForLanguage, builders derived) on the IRs that
// LangChainsMC.tla enumerated, and record the resulting IR for TLC.

import (
	"bufio"
	"bytes"
	"encoding/json"
	"flag"
	"fmt"
	"os"
	"strconv"
	"strings"
	"sync"

	"github.com/grafana/cog/verifapi"
)

func init() {
	commands["c06-run"] = c06Run
}

func allLanguages() map[string]func() verifapi.Language {
	return map[string]func() verifapi.Language{
		"go":         func() verifapi.Language { return verifapi.NewGo(verifapi.GoConfig{PackageRoot: "example.com/gen"}) },
		"java":       func() verifapi.Language { return verifapi.NewJava(verifapi.JavaConfig{}) },
		"jsonschema": func() verifapi.Language { return verifapi.NewJSONSchema(verifapi.JSONSchemaConfig{}) },
		"openapi":    func() verifapi.Language { return verifapi.NewOpenAPI(verifapi.OpenAPIConfig{}) },
		"php":        func() verifapi.Language { return verifapi.NewPHP(verifapi.PHPConfig{}) },
		"python":     func() verifapi.Language { return verifapi.NewPython(verifapi.PythonConfig{}) },
		"typescript": func() verifapi.Language { return verifapi.NewTypescript(verifapi.TypescriptConfig{}) },
	}
}

// optionedLanguages: the same languages with every boolean output option switched on. A language's chain is a fixed
// sequence of passes: `cog inspect --language L` shows the same normal form whatever the options of L are.
func optionedLanguages() map[string]func() verifapi.Language {
	return map[string]func() verifapi.Language{
		"go": func() verifapi.Language {
			return verifapi.NewGo(verifapi.GoConfig{PackageRoot: "example.com/gen", GenerateJSONMarshaller: true, GenerateStrictUnmarshaller: true,
				GenerateEqual: true, GenerateValidate: true, SkipRuntime: true, SkipPostFormatting: true, AnyAsInterface: true, GenerateConverters: true})
		},
		"java": func() verifapi.Language {
			return verifapi.NewJava(verifapi.JavaConfig{SkipRuntime: true, GenerateJSONMarshaller: true, GenerateBuilders: true, GenerateConverters: true})
		},
		"jsonschema": func() verifapi.Language { return verifapi.NewJSONSchema(verifapi.JSONSchemaConfig{Compact: true}) },
		"openapi":    func() verifapi.Language { return verifapi.NewOpenAPI(verifapi.OpenAPIConfig{Compact: true}) },
		"php":        func() verifapi.Language { return verifapi.NewPHP(verifapi.PHPConfig{GenerateJSONMarshaller: true}) },
		"python": func() verifapi.Language {
			return verifapi.NewPython(verifapi.PythonConfig{GenerateJSONMarshaller: true, SkipRuntime: true})
		},
		"typescript": func() verifapi.Language {
			return verifapi.NewTypescript(verifapi.TypescriptConfig{SkipRuntime: true, SkipIndex: true, EnumsAsUnionTypes: true})
		},
	}
}

var langOrder = []string{"go", "java", "jsonschema", "openapi", "php", "python", "typescript"}

// addEnumFacts decorates the members of named enum objects with the string
// facts the normal-form clauses need (TLA+ has no string functions).
func addEnumFacts(schemas []any) {
	for _, s := range schemas {
		for _, o := range jlist(jmap(s)["objects"]) {
			om := jmap(o)
			t := jmap(om["type"])
			if jstr(t["k"]) != "enum" {
				continue
			}
			prefix := verifapi.UpperCamelCase(jstr(om["name"]))
			for _, m := range jlist(t["members"]) {
				mm := jmap(m)
				name := jstr(mm["name"])
				_, err := strconv.Atoi(name)
				mm["numeric"] = err == nil
				mm["empty"] = name == ""
				mm["sign"] = strings.HasPrefix(name, "-") || strings.HasPrefix(name, "+")
				mm["pfx"] = prefix != "" && strings.HasPrefix(name, prefix)
			}
		}
	}
}

func refsOfType(t verifapi.Type, out *[]any) {
	switch {
	case t.Ref != nil:
		*out = append(*out, J{"pkg": t.Ref.ReferredPkg, "name": t.Ref.ReferredType})
	case t.ConstantReference != nil:
		*out = append(*out, J{"pkg": t.ConstantReference.ReferredPkg, "name": t.ConstantReference.ReferredType})
	case t.Array != nil:
		refsOfType(t.Array.ValueType, out)
	case t.Map != nil:
		refsOfType(t.Map.IndexType, out)
		refsOfType(t.Map.ValueType, out)
	case t.Struct != nil:
		for _, f := range t.Struct.Fields {
			refsOfType(f.Type, out)
		}
	case t.Disjunction != nil:
		for _, b := range t.Disjunction.Branches {
			refsOfType(b, out)
		}
	case t.Intersection != nil:
		for _, b := range t.Intersection.Branches {
			refsOfType(b, out)
		}
	}
}

func projBuilderRefs(bs verifapi.Builders) []any {
	out := []any{}
	for _, b := range bs {
		refs := []any{}
		for _, a := range b.Constructor.Args {
			refsOfType(a.Type, &refs)
		}
		for _, o := range b.Options {
			for _, a := range o.Args {
				refsOfType(a.Type, &refs)
			}
			for _, as := range o.Assignments {
				for _, p := range as.Path {
					refsOfType(p.Type, &refs)
					if p.TypeHint != nil {
						refsOfType(*p.TypeHint, &refs)
					}
				}
			}
		}
		out = append(out, J{"pkg": b.Package, "name": b.Name, "forpkg": b.For.SelfRef.ReferredPkg, "forname": b.For.SelfRef.ReferredType, "refs": refs})
	}
	return out
}

func c06Run(args []string) int {
	fs := flag.NewFlagSet("c06-run", flag.ExitOnError)
	in := fs.String("in", "", "TLC output with CASE lines")
	out := fs.String("out", "", "trace file (ndjson)")
	par := fs.Int("par", 16, "parallelism")
	_ = fs.Parse(args)
	f, err := os.Open(*in)
	if err != nil {
		fmt.Fprintln(os.Stderr, err)
		return 2
	}
	defer f.Close()
	of, err := os.Create(*out)
	if err != nil {
		fmt.Fprintln(os.Stderr, err)
		return 2
	}
	defer of.Close()
	w := bufio.NewWriterSize(of, 1<<20)
	defer w.Flush()
	rd := bufio.NewReaderSize(f, 4<<20)
	prefix := []byte(`<<"CASE", `)
	var mu sync.Mutex
	var wg sync.WaitGroup
	type job struct {
		n    int
		line []byte
	}
	jobs := make(chan job, 64)
	stats := map[string]int{}
	harnessErr := ""
	langs := allLanguages()
	optioned := optionedLanguages()
	process := func(jb job) {
		body := bytes.TrimSuffix(bytes.TrimSpace(jb.line[len(prefix):]), []byte(">>"))
		var js string
		if err := json.Unmarshal(body, &js); err != nil {
			mu.Lock()
			harnessErr = err.Error()
			mu.Unlock()
			return
		}
		var c J
		if err := json.Unmarshal([]byte(js), &c); err != nil {
			mu.Lock()
			harnessErr = err.Error()
			mu.Unlock()
			return
		}
		for _, lang := range langOrder {
			schemas, err := unprojSchemas(c["schemas"])
			if err != nil {
				mu.Lock()
				harnessErr = err.Error()
				mu.Unlock()
				return
			}
			rec := J{"case": jb.n, "lang": lang, "shape": c["shape"], "leaf": c["leaf"], "pos": c["pos"], "err": false, "panic": "", "post": []any{}, "builders": []any{}}
			// every other case (decided by the case itself, so that a replay makes the same choice) runs with the
			// language's boolean options all switched on
			mk, opts := langs[lang], "default"
			if lf, ok := c["leaf"].(float64); ok && (int(lf)+len(jlist(c["shape"])))%2 == 1 {
				mk, opts = optioned[lang], "all-on"
			}
			rec["opts"] = opts
			func() {
				defer func() {
					if r := recover(); r != nil {
						rec["panic"] = fmt.Sprint(r)
						rec["err"] = true
					}
				}()
				pipeline, perr := verifapi.NewPipeline()
				if perr != nil {
					panic(perr)
				}
				pipeline.Output.Builders = true
				ctx, cerr := pipeline.ContextForLanguage(mk(), schemas)
				if cerr != nil {
					rec["err"] = true
					rec["error"] = cerr.Error()
					return
				}
				post := normalize(projSchemas(ctx.Schemas)).([]any)
				addEnumFacts(post)
				rec["post"] = post
				rec["builders"] = projBuilderRefs(ctx.Builders)
			}()
			// the schemas handed to the chain must not change (C07)
			if canon(projSchemas(schemas)) != canon(c["schemas"]) {
				rec["input_mutated"] = true
			}
			raw, _ := json.Marshal(rec)
			mu.Lock()
			w.Write(raw)
			w.WriteByte('\n')
			stats["records"]++
			stats["opts/"+opts]++
			if rec["err"] == true {
				stats["errors/"+lang]++
			}
			if rec["panic"] != "" {
				stats["panics/"+lang]++
			}
			mu.Unlock()
		}
	}
	// the pipeline hands ONE loaded set of schemas to every language in turn (each chain starts with a deep copy): the same
	// is done here for a third of the cases and for every case with an allOf: a chain that writes through a shallow copy
	// leaves references in the shared schemas to objects that only exist in its own private copy, and the NEXT language
	// starts from those. Records are labelled "shared:<lang>": no normal-form clause applies to them, reference
	// resolution (C05) does.
	processShared := func(jb job, c J) {
		schemas, err := unprojSchemas(c["schemas"])
		if err != nil {
			return
		}
		for _, lang := range langOrder {
			rec := J{"case": jb.n, "lang": "shared:" + lang, "shape": c["shape"], "leaf": c["leaf"], "pos": c["pos"], "err": false, "panic": "", "post": []any{}, "builders": []any{}}
			func() {
				defer func() {
					if r := recover(); r != nil {
						rec["panic"] = fmt.Sprint(r)
						rec["err"] = true
					}
				}()
				pipeline, perr := verifapi.NewPipeline()
				if perr != nil {
					panic(perr)
				}
				pipeline.Output.Builders = true
				ctx, cerr := pipeline.ContextForLanguage(langs[lang](), schemas)
				if cerr != nil {
					rec["err"] = true
					rec["error"] = cerr.Error()
					return
				}
				post := normalize(projSchemas(ctx.Schemas)).([]any)
				addEnumFacts(post)
				rec["post"] = post
				rec["builders"] = projBuilderRefs(ctx.Builders)
			}()
			raw, _ := json.Marshal(rec)
			mu.Lock()
			w.Write(raw)
			w.WriteByte('\n')
			stats["records"]++
			stats["shared_records"]++
			mu.Unlock()
		}
	}
	hasAllOf := func(c J) bool {
		for _, x := range jlist(c["shape"]) {
			if jstr(x) == "allof" {
				return true
			}
		}
		return false
	}
	for i := 0; i < *par; i++ {
		wg.Add(1)
		go func() {
			defer wg.Done()
			for jb := range jobs {
				process(jb)
				body := bytes.TrimSuffix(bytes.TrimSpace(jb.line[len(prefix):]), []byte(">>"))
				var js string
				var c J
				if json.Unmarshal(body, &js) == nil && json.Unmarshal([]byte(js), &c) == nil && (jb.n%3 == 0 || hasAllOf(c)) {
					processShared(jb, c)
				}
			}
		}()
	}
	n := 0
	for {
		line, rerr := rd.ReadBytes('\n')
		if bytes.HasPrefix(line, prefix) {
			n++
			jobs <- job{n, line}
		}
		if rerr != nil {
			break
		}
	}
	close(jobs)
	wg.Wait()
	if harnessErr != "" {
		fmt.Fprintln(os.Stderr, harnessErr)
		return 2
	}
	stats["cases"] = n
	raw, _ := json.Marshal(stats)
	os.Stdout.Write(raw)
	os.Stdout.WriteString("\n")
	return 0
}
