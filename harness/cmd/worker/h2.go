package main

// Conversion of hook-H2 traces (recorded while the REPOSITORY'S OWN TESTS run
// with -tags verif and COG_VERIF_TRACE set) into records for LangChainsTrace /
// TransformsTrace: the repository's fixtures become trace sources.

import (
	"bufio"
	"encoding/json"
	"flag"
	"fmt"
	"os"
	"path/filepath"
	"reflect"
	"strings"

	"github.com/grafana/cog/verifapi"
)

func init() {
	commands["h2-convert"] = h2Convert
}

type h2Rec struct {
	Ev      string          `json:"ev"`
	Chain   int             `json:"chain"`
	Passes  []string        `json:"passes"`
	Pass    string          `json:"pass"`
	Failed  bool            `json:"failed"`
	Schemas json.RawMessage `json:"schemas"`
}

func h2Schemas(raw json.RawMessage) ([]any, error) {
	var schemas verifapi.Schemas
	if err := json.Unmarshal(raw, &schemas); err != nil {
		return nil, err
	}
	for _, s := range schemas {
		if s.Objects == nil {
			s.Objects = verifapi.NewObjectMap()
		}
	}
	return normalize(projSchemas(schemas)).([]any), nil
}

// languageOfChain recognises a language's built-in chain (a prefix of the recorded pass list).
func languageOfChain(passes []string) string {
	best, bestLen := "", 0
	for name, mk := range allLanguages() {
		chain := mk().CompilerPasses()
		if len(chain) == 0 || len(chain) > len(passes) {
			continue
		}
		ok := true
		for i, p := range chain {
			if fmt.Sprintf("%T", p) != passes[i] {
				ok = false
				break
			}
		}
		// jsonschema and openapi share a chain: report it as "jsonschema"
		if ok && (len(chain) > bestLen || (len(chain) == bestLen && name < best)) {
			best, bestLen = name, len(chain)
		}
	}
	return best
}

func h2Convert(args []string) int {
	fs := flag.NewFlagSet("h2-convert", flag.ExitOnError)
	dir := fs.String("dir", "", "directory with trace-*.ndjson")
	out := fs.String("out", "", "records for LangChainsTrace (ndjson)")
	_ = fs.Parse(args)
	files, _ := filepath.Glob(filepath.Join(*dir, "trace-*.ndjson"))
	of, err := os.Create(*out)
	if err != nil {
		fmt.Fprintln(os.Stderr, err)
		return 2
	}
	defer of.Close()
	w := bufio.NewWriter(of)
	defer w.Flush()
	stats := map[string]int{}
	seen := map[string]bool{}
	for _, fn := range files {
		f, err := os.Open(fn)
		if err != nil {
			continue
		}
		rd := bufio.NewReaderSize(f, 4<<20)
		starts := map[int]h2Rec{}
		for {
			line, rerr := rd.ReadBytes('\n')
			if len(line) > 1 {
				var r h2Rec
				if err := json.Unmarshal(line, &r); err == nil {
					stats["raw/"+r.Ev]++
					switch r.Ev {
					case "start":
						starts[r.Chain] = r
					case "end":
						st, ok := starts[r.Chain]
						if !ok {
							break
						}
						delete(starts, r.Chain)
						lang := languageOfChain(st.Passes)
						pre, err1 := h2Schemas(st.Schemas)
						post, err2 := h2Schemas(r.Schemas)
						if err1 != nil || err2 != nil {
							stats["undecodable"]++
							break
						}
						key := lang + "|" + canon(pre)
						if seen[key] {
							stats["duplicate"]++
							break
						}
						seen[key] = true
						addEnumFacts(post)
						label := lang
						if label == "" {
							label = "other"
						}
						rec := J{"case": 0, "lang": lang, "shape": []any{"fixture"}, "leaf": 0, "pos": strings.Join(st.Passes, ","), "err": false, "panic": "",
							"pre": pre, "post": post, "builders": []any{}, "source": "repository-tests"}
						raw, _ := json.Marshal(rec)
						w.Write(raw)
						w.WriteByte('\n')
						stats["chains/"+label]++
					}
				}
			}
			if rerr != nil {
				break
			}
		}
		f.Close()
	}
	raw, _ := json.Marshal(stats)
	fmt.Println(string(raw))
	return 0
}

var _ = reflect.TypeOf
