package main

// C16: replay of BuildersMC (Spec16) cases on the real ast.BuilderGenerator.
//
// Input: TLC output with lines <<"CASE16", "<json>">>, each {case, S, expect, modes}:
// a schema set, Derive(S) and, per struct-like object and field, how the property
// wants the field covered (option | constant | own | free).  For every case the
// real (&ast.BuilderGenerator{}).FromAST(S) is run, projected and compared with
// the expectation conjunct by conjunct; every real result is also written as a
// trace record {kind:"derive", S, B} which BuildersTrace.tla judges independently.

import (
	"bufio"
	"bytes"
	"encoding/json"
	"flag"
	"fmt"
	"os"
	"runtime/debug"
	"sort"
	"strings"

	"cuelang.org/go/cue/cuecontext"
	"github.com/grafana/cog/verifapi"
)

func init() {
	commands["c16-replay"] = c16Replay
	commands["builders-selftest"] = buildersSelftest
	commands["c16-pipeline"] = c16Pipeline
	commands["c16-loaded"] = c16Loaded
}

type case16 struct {
	Case   J     `json:"case"`
	S      []any `json:"S"`
	Expect []any `json:"expect"`
	Modes  []any `json:"modes"`
	B      []any `json:"B"` // when present: builders produced by the real pipeline for S (used instead of calling FromAST)
}

func taggedPayload(line, prefix []byte, into any) error {
	body := bytes.TrimSpace(line[len(prefix):])
	body = bytes.TrimSuffix(body, []byte(">>"))
	var js string
	if err := json.Unmarshal(body, &js); err != nil {
		return err
	}
	return json.Unmarshal([]byte(js), into)
}

// resolveJ follows references in the projected schemas (as Builders.tla Resolve).
func resolveJ(S []any, t J, fuel int) J {
	if jstr(t["k"]) != "ref" || fuel == 0 {
		return t
	}
	for _, s := range S {
		if jstr(jmap(s)["pkg"]) != jstr(t["pkg"]) {
			continue
		}
		for _, o := range jlist(jmap(s)["objects"]) {
			if jstr(jmap(o)["name"]) == jstr(t["name"]) {
				return resolveJ(S, jmap(jmap(o)["type"]), fuel-1)
			}
		}
	}
	return t
}

func isNilV(v any) bool { m := jmap(v); return m == nil || jstr(m["t"]) == "nil" }

// fieldKind is the witness class of a field: the kind of its type (references by what
// they resolve to) plus the features a derivation can lose.
func fieldKind(S []any, home string, f J) string {
	t := jmap(f["type"])
	base := jstr(t["k"])
	flags := []string{}
	switch base {
	case "scalar":
		if !isNilV(t["val"]) {
			base = "constant"
		} else if cons := jlist(t["cons"]); len(cons) > 0 {
			flags = append(flags, "constraints")
			ops := map[string]bool{}
			for _, c := range cons {
				if ops[jstr(jmap(c)["op"])] {
					flags = append(flags, "operator-repeated")
					break
				}
				ops[jstr(jmap(c)["op"])] = true
			}
		}
	case "ref":
		r := resolveJ(S, t, 8)
		switch {
		case jstr(r["k"]) == "ref":
			base = "ref-unresolved"
		case jstr(r["k"]) == "scalar" && !isNilV(r["val"]):
			base = "ref-to-constant"
			if jstr(t["pkg"]) != home {
				base += "-other-package"
			}
			first := resolveJ(S, t, 1)
			if jstr(first["k"]) == "ref" {
				base += "-via-alias"
				if jstr(first["pkg"]) != jstr(t["pkg"]) {
					base += "-crossing-packages"
				}
			}
			if !jbool(f["required"]) {
				flags = append(flags, "optional")
			}
		default:
			base = "ref-to-" + jstr(r["k"])
		}
	case "constref":
		base = "constant_ref"
	}
	// constants other than non-empty strings: the scalar kind, the Go type the loaders hold the value in when it is
	// not the kind's own (JSON Schema: float64 holding int64; CUE: uint8 holding int64; YAML: int32 holding int), falsy values
	if c := constantOf(S, t); c != nil {
		flags = append(flags, constantFlags(c)...)
	}
	if jbool(t["nullable"]) {
		flags = append(flags, "nullable")
	}
	if !isNilV(t["def"]) {
		flags = append(flags, "default")
		if d := jstr(jmap(t["def"])["s"]); d == "[]" || d == "{}" {
			flags = append(flags, "empty-collection")
		}
	}
	sort.Strings(flags)
	if len(flags) > 0 {
		return base + "+" + strings.Join(flags, "+")
	}
	return base
}

// constantOf: the constant a field type fixes (inline or through references), nil if none.
func constantOf(S []any, t J) J {
	r := t
	if jstr(t["k"]) == "ref" {
		r = resolveJ(S, t, 8)
	}
	if jstr(r["k"]) == "scalar" && !isNilV(r["val"]) {
		return r
	}
	return nil
}

// goTypeOfKind: the Go type ScalarType.AcceptsValue expects for a scalar kind.
func goTypeOfKind(sk string) string {
	switch sk {
	case "string", "bool", "float32", "float64", "uint8", "uint16", "uint32", "uint64", "int8", "int16", "int32", "int64":
		return sk
	}
	return ""
}

func constantFlags(c J) []string {
	sk, v := jstr(c["sk"]), jmap(c["val"])
	var out []string
	if sk != "string" {
		if want := goTypeOfKind(sk); want != "" && jstr(v["t"]) != want {
			out = append(out, sk+"-held-as-"+jstr(v["t"]))
		} else {
			out = append(out, sk)
		}
	}
	switch jstr(v["s"]) {
	case "", "0", "false":
		out = append(out, "falsy")
	}
	return out
}

func objectKind(S []any, pkg, name string) string {
	for _, s := range S {
		if jstr(jmap(s)["pkg"]) != pkg {
			continue
		}
		for _, o := range jlist(jmap(s)["objects"]) {
			if jstr(jmap(o)["name"]) != name {
				continue
			}
			t := jmap(jmap(o)["type"])
			if jstr(t["k"]) != "ref" {
				if jstr(t["k"]) == "scalar" && !isNilV(t["val"]) {
					return "constant"
				}
				return jstr(t["k"])
			}
			r := resolveJ(S, t, 8)
			first := resolveJ(S, t, 1)
			chain := ""
			if jstr(first["k"]) == "ref" && jstr(r["k"]) != "ref" {
				chain = "-chain"
				// does a later hop of the chain leave the package the chain started in?
				for hop, fuel := first, 8; jstr(hop["k"]) == "ref" && fuel > 0; hop, fuel = resolveJ(S, hop, 1), fuel-1 {
					if jstr(hop["pkg"]) != jstr(t["pkg"]) {
						chain = "-chain-crossing-packages"
						break
					}
				}
			}
			switch {
			case jstr(r["k"]) == "ref":
				return "alias-unresolved"
			case jstr(r["k"]) == "scalar" && !isNilV(r["val"]):
				return "alias" + chain + "-of-constant"
			}
			return "alias" + chain + "-of-" + jstr(r["k"])
		}
	}
	return "no-such-object"
}

func targets(a any, field string) bool {
	p := jlist(jmap(a)["path"])
	return len(p) >= 1 && jstr(jmap(p[0])["id"]) == field
}

type c16Failure struct {
	sig string
	ex  J
}

// judge16 compares the real builders with the expectation; conjuncts are reported separately.
func judge16(c case16, real []any) []c16Failure {
	var out []c16Failure
	add := func(conjunct, witness string, detail J) {
		detail["case"] = c.Case
		out = append(out, c16Failure{fmt.Sprintf("C16/FromAST/%s/%s", conjunct, witness), detail})
	}
	key := func(b any) string { return jstr(jmap(b)["pkg"]) + "." + jstr(jmap(jmap(b)["for"])["name"]) }
	want := map[string]J{}
	for _, b := range c.Expect {
		want[key(b)] = jmap(b)
	}
	got := map[string]J{}
	for _, b := range real {
		k := key(b)
		if _, dup := got[k]; dup {
			add("BuilderSet", "duplicate:"+objectKind(c.S, jstr(jmap(b)["pkg"]), jstr(jmap(jmap(b)["for"])["name"])), J{"builder": k})
		}
		got[k] = jmap(b)
		if _, ok := want[k]; !ok {
			add("BuilderSet", "extra:"+objectKind(c.S, jstr(jmap(b)["pkg"]), jstr(jmap(jmap(b)["for"])["name"])), J{"builder": k})
		}
	}
	// one builder per object, an object being identified by its own reference: two builders (under different keys)
	// built for the same object are one too many, whatever package they sit in
	byObject := map[string][]string{}
	for _, b := range real {
		f := jmap(jmap(b)["for"])
		id := jstr(f["selfpkg"]) + "." + jstr(f["selfname"])
		seen := false
		for _, k := range byObject[id] {
			seen = seen || k == key(b)
		}
		if !seen {
			byObject[id] = append(byObject[id], key(b))
		}
	}
	for _, b := range real {
		f := jmap(jmap(b)["for"])
		id := jstr(f["selfpkg"]) + "." + jstr(f["selfname"])
		if ks := byObject[id]; len(ks) > 1 {
			add("BuilderSet", "duplicate-object:"+objectKind(c.S, jstr(f["selfpkg"]), jstr(f["selfname"])), J{"builder": key(b), "object": id, "builders": ks})
		}
	}
	for k, b := range want {
		if _, ok := got[k]; !ok {
			add("BuilderSet", "missing:"+objectKind(c.S, jstr(b["pkg"]), jstr(jmap(b["for"])["name"])), J{"builder": k})
		}
	}
	for _, m := range c.Modes {
		mm := jmap(m)
		k := jstr(mm["pkg"]) + "." + jstr(mm["name"])
		b, ok := got[k]
		if !ok {
			continue
		}
		e := want[k]
		st := resolveJ(c.S, jmap(jmap(e["for"])["type"]), 8)
		fields := map[string]J{}
		for _, f := range jlist(st["fields"]) {
			fields[jstr(jmap(f)["name"])] = jmap(f)
		}
		// stray options: an option none of whose assignments targets a field of the object
		for _, o := range jlist(b["options"]) {
			hit := false
			for _, a := range jlist(jmap(o)["assigns"]) {
				for n := range fields {
					if targets(a, n) {
						hit = true
					}
				}
			}
			if !hit {
				add("CoveredExactlyOnce", "stray-option", J{"builder": k, "option": jstr(jmap(o)["name"])})
			}
		}
		for _, fm := range jlist(mm["fields"]) {
			name, mode := jstr(jmap(fm)["name"]), jstr(jmap(fm)["mode"])
			f := fields[name]
			kind := fieldKind(c.S, jstr(mm["pkg"]), f)
			var opts, ctors []J
			for _, o := range jlist(b["options"]) {
				for _, a := range jlist(jmap(o)["assigns"]) {
					if targets(a, name) {
						opts = append(opts, jmap(o))
						break
					}
				}
			}
			for _, a := range jlist(jmap(b["ctor"])["assigns"]) {
				if targets(a, name) {
					ctors = append(ctors, jmap(a))
				}
			}
			no, nc := len(opts), len(ctors)
			detail := func() J {
				return J{"builder": k, "field": name, "mode": mode, "options": no, "constructor_assignments": nc}
			}
			fixedHasOption := (mode == "constant" || mode == "own") && no > 0
			if fixedHasOption {
				add("FixedNeverOption", kind, detail())
			}
			cover := false
			switch mode {
			case "option":
				cover = no == 1 && nc == 0
			case "constant":
				cover = no == 0 && nc == 1
			case "own":
				cover = no == 0 && nc == 0
			default:
				cover = (no == 1 && nc == 0) || (no == 0 && nc <= 1)
			}
			expectedCtors := 0
			if mode == "constant" {
				expectedCtors = 1
			}
			if !cover && !(fixedHasOption && nc == expectedCtors) {
				add("CoveredExactlyOnce", kind, detail())
			}
			// the expected option / constant for this field, from Derive(S)
			var eo J
			for _, o := range jlist(e["options"]) {
				if jstr(jmap(o)["name"]) == name {
					eo = jmap(o)
				}
			}
			if (mode == "option" || mode == "free") && no == 1 && nc == 0 && eo != nil {
				o := opts[0]
				if canonJ(o["args"]) != canonJ(eo["args"]) || canonJ(o["def"]) != canonJ(eo["def"]) {
					w := kind
					d := detail()
					d["want"], d["got"] = J{"args": eo["args"], "def": eo["def"]}, J{"args": o["args"], "def": o["def"]}
					if canonJ(o["args"]) == canonJ(eo["args"]) {
						d["part"] = "default"
					} else {
						d["part"] = "argument"
					}
					add("Argument", w, d)
				}
				as := jlist(o["assigns"])
				ea := jmap(jlist(eo["assigns"])[0])
				pathOK := len(as) == 1 && canonJ(jmap(as[0])["path"]) == canonJ(ea["path"]) &&
					jstr(jmap(jmap(as[0])["value"])["k"]) == "arg" && jstr(jmap(jmap(jmap(as[0])["value"])["arg"])["name"]) == name
				if !pathOK {
					d := detail()
					d["want"], d["got"] = ea, as
					add("AssignmentPath", kind, d)
				}
				if len(as) >= 1 && canonJ(jmap(as[0])["cons"]) != canonJ(ea["cons"]) {
					d := detail()
					d["want"], d["got"] = ea["cons"], jmap(as[0])["cons"]
					add("Constraints", kind, d)
				}
			}
			if (mode == "constant" || mode == "free") && no == 0 && nc == 1 {
				// expected constant: the value the schema fixes
				var wantVal any
				if mode == "constant" {
					for _, a := range jlist(jmap(e["ctor"])["assigns"]) {
						if targets(a, name) {
							wantVal = jmap(a)
						}
					}
				} else {
					r := resolveJ(c.S, jmap(f["type"]), 8)
					wantVal = J{"path": jmap(jlist(eo["assigns"])[0])["path"], "value": J{"k": "const", "val": r["val"]}}
				}
				w := jmap(wantVal)
				if canonJ(ctors[0]["path"]) != canonJ(w["path"]) || canonJ(ctors[0]["value"]) != canonJ(w["value"]) {
					d := detail()
					d["want"], d["got"] = w, ctors[0]
					add("ConstructorConstant", kind, d)
				}
			}
		}
	}
	return out
}

func c16Replay(args []string) int {
	fs := flag.NewFlagSet("c16-replay", flag.ExitOnError)
	in := fs.String("in", "", "TLC output file with CASE16 lines")
	traceOut := fs.String("trace", "", "write {kind:derive, S, B(real)} records for BuildersTrace")
	maxStack := fs.Int("maxstack-mb", 0, "limit the goroutine stack (isolated runs on inputs the real code may not terminate on)")
	_ = fs.Parse(args)
	if *maxStack > 0 {
		debug.SetMaxStack(*maxStack << 20)
	}
	f, err := os.Open(*in)
	if err != nil {
		fmt.Fprintln(os.Stderr, err)
		return 2
	}
	defer f.Close()
	rd := bufio.NewReaderSize(f, 4<<20)
	var tw *bufio.Writer
	if *traceOut != "" {
		tf, err := os.Create(*traceOut)
		if err != nil {
			fmt.Fprintln(os.Stderr, err)
			return 2
		}
		defer tf.Close()
		tw = bufio.NewWriterSize(tf, 1<<20)
		defer tw.Flush()
	}
	prefix := []byte(`<<"CASE16", `)
	cases, matched, outOfScope, traced := 0, 0, 0, 0
	given := false
	perKind := map[string]int{}    // field kind -> fields judged
	perMode := map[string]int{}    // mode -> fields judged
	perObjKind := map[string]int{} // object kind -> objects judged
	sigs := map[string]*sigAgg{}
	other := map[string]int{}
	traceSigs := [][]string{} // per traced record: the Go verdict (conjunct names), for the cross-check with TLC
	var samples []any
	for {
		line, rerr := rd.ReadBytes('\n')
		if bytes.HasPrefix(line, prefix) {
			var c case16
			if err := taggedPayload(line, prefix, &c); err != nil {
				fmt.Fprintln(os.Stderr, "bad CASE16 line:", err)
				return 2
			}
			cases++
			schemas, err := unprojSchemas(any(c.S))
			if err != nil {
				fmt.Fprintln(os.Stderr, "harness:", err)
				return 2
			}
			var real []verifapi.Builder
			panicked := ""
			if c.B == nil {
				given = false
			} else {
				given = true
			}
			if !given {
				func() {
					defer func() {
						if r := recover(); r != nil {
							panicked = fmt.Sprint(r)
						}
					}()
					real = (&verifapi.BuilderGenerator{}).FromAST(schemas)
				}()
			}
			dangling := false
			for _, s := range c.S {
				for _, o := range jlist(jmap(s)["objects"]) {
					if objectKind(c.S, jstr(jmap(s)["pkg"]), jstr(jmap(o)["name"])) == "alias-unresolved" {
						dangling = true
					}
				}
			}
			if panicked != "" {
				cls := "other"
				if dangling {
					cls = "alias-of-unloaded-object"
				}
				other["C04/BuilderGenerator.FromAST/panic/"+cls]++
				if !dangling {
					a := sigs["C16/FromAST/panic/"+cls]
					if a == nil {
						a = &sigAgg{}
						sigs["C16/FromAST/panic/"+cls] = a
					}
					a.Count++
					if len(a.Examples) < 2 {
						a.Examples = append(a.Examples, J{"case": c.Case, "S": c.S, "panic": panicked})
					}
				} else {
					outOfScope++
				}
				continue
			}
			if canonJ(projSchemas(schemas)) != canonJ(any(c.S)) {
				other["C07/input-mutated/BuilderGenerator.FromAST"]++
			}
			realJ := projBuilders(real)
			// normalise through JSON so that the comparison sees what TLC will see
			var realN []any
			raw, _ := json.Marshal(realJ)
			_ = json.Unmarshal(raw, &realN)
			if given {
				realN = c.B
			}
			fails := judge16(c, realN)
			if variant, _ := c.Case["variant"].(string); given && !strings.HasPrefix(variant, "loaded:") {
				// the builders came out of the real pipeline: name the site accordingly
				for i := range fails {
					fails[i].sig = strings.Replace(fails[i].sig, "C16/FromAST/", "C16/ContextForLanguage/", 1)
				}
			}
			for _, s := range c.S {
				for _, o := range jlist(jmap(s)["objects"]) {
					perObjKind[objectKind(c.S, jstr(jmap(s)["pkg"]), jstr(jmap(o)["name"]))]++
				}
			}
			for _, m := range c.Modes {
				st := resolveJ(c.S, J{"k": "ref", "pkg": jstr(jmap(m)["pkg"]), "name": jstr(jmap(m)["name"])}, 8)
				byName := map[string]J{}
				for _, f := range jlist(st["fields"]) {
					byName[jstr(jmap(f)["name"])] = jmap(f)
				}
				for _, fm := range jlist(jmap(m)["fields"]) {
					perKind[fieldKind(c.S, jstr(jmap(m)["pkg"]), byName[jstr(jmap(fm)["name"])])]++
					perMode[jstr(jmap(fm)["mode"])]++
				}
			}
			conj := map[string]bool{}
			for _, fl := range fails {
				a := sigs[fl.sig]
				if a == nil {
					a = &sigAgg{}
					sigs[fl.sig] = a
				}
				a.Count++
				if len(a.Examples) < 2 {
					fl.ex["S"] = c.S
					fl.ex["real"] = realN
					a.Examples = append(a.Examples, fl.ex)
				}
				conj[strings.Split(fl.sig, "/")[2]] = true
			}
			if len(fails) == 0 {
				matched++
				if len(samples) < 3 && cases%311 == 7 {
					samples = append(samples, J{"case": c.Case, "S": c.S, "builders": realN})
				}
			}
			if tw != nil {
				rec, _ := json.Marshal(J{"kind": "derive", "S": c.S, "B": realN})
				tw.Write(rec)
				tw.WriteByte('\n')
				traced++
				names := []string{}
				for k := range conj {
					names = append(names, k)
				}
				sort.Strings(names)
				traceSigs = append(traceSigs, names)
			}
		}
		if rerr != nil {
			break
		}
	}
	out, _ := json.Marshal(J{"cases": cases, "matched": matched, "out_of_scope": outOfScope, "traced": traced,
		"per_field_kind": perKind, "per_mode": perMode, "per_object_kind": perObjKind, "signatures": sigs,
		"observations_for_other_properties": other, "samples": samples, "trace_verdicts": traceSigs})
	os.Stdout.Write(out)
	os.Stdout.WriteString("\n")
	return 0
}

// buildersSelftest: the projection of builders round-trips (proj . unproj . proj = proj).
func buildersSelftest(args []string) int {
	rd := bufio.NewReaderSize(os.Stdin, 4<<20)
	n := 0
	for {
		line, rerr := rd.ReadBytes('\n')
		if len(bytes.TrimSpace(line)) > 0 {
			var bs []any
			if err := json.Unmarshal(line, &bs); err != nil {
				fmt.Fprintln(os.Stderr, err)
				return 2
			}
			real, err := unprojBuilders(any(bs))
			if err != nil {
				fmt.Fprintln(os.Stderr, "unproject:", err)
				return 1
			}
			if canonJ(projBuilders(real)) != canonJ(any(bs)) {
				fmt.Fprintln(os.Stderr, "builders projection does not round-trip for record", n)
				return 1
			}
			n++
		}
		if rerr != nil {
			break
		}
	}
	fmt.Printf("{\"roundtrips\": %d}\n", n)
	return 0
}

// stripNilChecks removes generated nil checks from projected builders (the pipeline adds them after the derivation).
func stripNilChecks(bs []any) {
	for _, b := range bs {
		bm := jmap(b)
		for _, a := range jlist(jmap(bm["ctor"])["assigns"]) {
			jmap(a)["nilchecks"] = []any{}
		}
		for _, o := range jlist(bm["options"]) {
			for _, a := range jlist(jmap(o)["assigns"]) {
				jmap(a)["nilchecks"] = []any{}
			}
		}
	}
}

// c16Pipeline: CASEP lines {S, passes, lang} -> the REAL codegen.Pipeline.ContextForLanguage with builders on and the
// passes as Transforms.FinalPasses; writes {case, S: schemas the pipeline returns, B: builders it returns} per case.
func c16Pipeline(args []string) int {
	fs := flag.NewFlagSet("c16-pipeline", flag.ExitOnError)
	in := fs.String("in", "", "TLC output with CASEP lines")
	out := fs.String("out", "", "ndjson of {case, S, B}")
	_ = fs.Parse(args)
	f, err := os.Open(*in)
	if err != nil {
		fmt.Fprintln(os.Stderr, err)
		return 2
	}
	defer f.Close()
	rd := bufio.NewReaderSize(f, 4<<20)
	of, err := os.Create(*out)
	if err != nil {
		fmt.Fprintln(os.Stderr, err)
		return 2
	}
	defer of.Close()
	w := bufio.NewWriter(of)
	defer w.Flush()
	prefix := []byte(`<<"CASEP", `)
	langs := allLanguages()
	n, written, rejected := 0, 0, 0
	other := map[string]int{}
	for {
		line, rerr := rd.ReadBytes('\n')
		if bytes.HasPrefix(line, prefix) {
			var c struct {
				S      []any  `json:"S"`
				Passes []any  `json:"passes"`
				Lang   string `json:"lang"`
			}
			if err := taggedPayload(line, prefix, &c); err != nil {
				fmt.Fprintln(os.Stderr, "bad CASEP line:", err)
				return 2
			}
			n++
			schemas, err := unprojSchemas(any(c.S))
			if err != nil {
				fmt.Fprintln(os.Stderr, "harness:", err)
				return 2
			}
			var final verifapi.Passes
			names := []string{}
			for _, a := range c.Passes {
				p, _, perr := passFromAct(jmap(a))
				if perr != nil {
					fmt.Fprintln(os.Stderr, "harness:", perr)
					return 2
				}
				final = append(final, p)
				names = append(names, jstr(jmap(a)["a"]))
			}
			var ctx verifapi.LanguageContext
			var cerr error
			panicked := ""
			func() {
				defer func() {
					if r := recover(); r != nil {
						panicked = fmt.Sprint(r)
					}
				}()
				pipeline, perr := verifapi.NewPipeline()
				if perr != nil {
					panic(perr)
				}
				pipeline.Output.Builders = true
				pipeline.Transforms.FinalPasses = final
				ctx, cerr = pipeline.ContextForLanguage(langs[c.Lang](), schemas)
			}()
			if panicked != "" {
				other["C04/Pipeline.ContextForLanguage/panic/"+panicClass(panicked)]++
				continue
			}
			if cerr != nil {
				rejected++
				continue
			}
			bs := normJSON(projBuilders(ctx.Builders))
			stripNilChecks(bs)
			// the case carries its input (what went INTO the pipeline), so that a stored violation can be replayed on the real pipeline
			rec, _ := json.Marshal(J{"case": J{"fields": []any{}, "variant": "pipeline:" + c.Lang + ":" + strings.Join(names, "+"),
				"input": J{"S": c.S, "passes": c.Passes, "lang": c.Lang}},
				"S": normJSON(projSchemas(ctx.Schemas)), "B": bs})
			w.Write(rec)
			w.WriteByte('\n')
			written++
		}
		if rerr != nil {
			break
		}
	}
	fmt.Printf("{\"cases\": %d, \"written\": %d, \"rejected\": %d, \"observations\": %s}\n", n, written, rejected, canonJ(other))
	return 0
}

// Schemas as the real loaders produce them: constants keep the Go type the loader gave their value, which is not always
// the scalar kind's own (an integral JSON Schema "number" is an int64 in a float64 scalar; CUE `uint8 & 3` an int64 in a
// uint8 scalar).  The universes of BuildersMC / BuildersDeepMC state these representations; this route binds them to the
// loaders: every field below refers to a constant, or is one, and must be fixed by the constructor.
const c16LoadedJSONSchema = `{
  "$schema": "http://json-schema.org/draft-07/schema#",
  "$ref": "#/definitions/Toggle",
  "definitions": {
    "Kind":    {"type": "string", "const": "toggle"},
    "Version": {"type": "number", "const": 2},
    "Weight":  {"type": "number", "const": 0.5},
    "Count":   {"type": "integer", "const": 7},
    "Zero":    {"type": "integer", "const": 0},
    "Off":     {"type": "boolean", "const": false},
    "VersionAlias": {"$ref": "#/definitions/Version"},
    "Toggle": {
      "type": "object",
      "required": ["kind", "version", "weight", "count", "zero", "off", "versionAgain", "name", "level"],
      "properties": {
        "name":    {"type": "string"},
        "level":   {"type": "number", "const": 3},
        "kind":    {"$ref": "#/definitions/Kind"},
        "version": {"$ref": "#/definitions/Version"},
        "weight":  {"$ref": "#/definitions/Weight"},
        "count":   {"$ref": "#/definitions/Count"},
        "zero":    {"$ref": "#/definitions/Zero"},
        "off":     {"$ref": "#/definitions/Off"},
        "versionAgain": {"$ref": "#/definitions/VersionAlias"},
        "maybe":   {"$ref": "#/definitions/Version"}
      }
    }
  }
}`

const c16LoadedCue = `
Kind: "toggle"
Retries: uint8 & 3
Ratio: float32 & 1.5
Count: 7
Off: false
Toggle: {
	name: string
	level: uint8 & 1
	kind: Kind
	retries: Retries
	ratio: Ratio
	count: Count
	off: Off
	maybe?: Retries
}
`

// c16Loaded: the two texts through the real loaders, then the real FromAST; writes {case, S, B} records (as c16-pipeline).
func c16Loaded(args []string) int {
	fs := flag.NewFlagSet("c16-loaded", flag.ExitOnError)
	out := fs.String("out", "", "ndjson of {case, S, B}")
	_ = fs.Parse(args)
	of, err := os.Create(*out)
	if err != nil {
		fmt.Fprintln(os.Stderr, err)
		return 2
	}
	defer of.Close()
	w := bufio.NewWriter(of)
	defer w.Flush()
	loaders := []struct {
		name string
		load func() (*verifapi.Schema, error)
	}{
		{"jsonschema", func() (*verifapi.Schema, error) {
			return verifapi.JSONSchemaGenerateAST(strings.NewReader(c16LoadedJSONSchema), verifapi.JSONSchemaParserConfig{Package: "flags"})
		}},
		{"cue", func() (*verifapi.Schema, error) {
			v := cuecontext.New().CompileString(c16LoadedCue)
			if v.Err() != nil {
				return nil, v.Err()
			}
			return verifapi.CueGenerateAST(v, verifapi.CueParserConfig{Package: "flags"})
		}},
	}
	written := 0
	failed := map[string]string{}
	for _, l := range loaders {
		func() {
			defer func() {
				if r := recover(); r != nil {
					failed[l.name] = fmt.Sprint(r)
				}
			}()
			schema, err := l.load()
			if err != nil {
				failed[l.name] = err.Error()
				return
			}
			schemas := verifapi.Schemas{schema}
			real := (&verifapi.BuilderGenerator{}).FromAST(schemas)
			rec, _ := json.Marshal(J{"case": J{"fields": []any{}, "variant": "loaded:" + l.name},
				"S": normJSON(projSchemas(schemas)), "B": normJSON(projBuilders(real))})
			w.Write(rec)
			w.WriteByte('\n')
			written++
		}()
	}
	fmt.Printf("{\"written\": %d, \"failed\": %s}\n", written, canonJ(failed))
	return 0
}
