package main

// Replay of Transforms.tla edges on the real compiler passes (C15, C05 c/d).
//
// Input: TLC's raw output (lines `<<"EDGE", "<json>">>`) with edges
// {pre, act, post}. For every edge the real pass is built from `act` (directly
// and, where the YAML grammar can express it, through yaml.CompilerLoader),
// run with compiler.Passes{p}.Process on the real schemas built from `pre`,
// and the projected result is compared with TLC's `post`.

import (
	"bufio"
	"bytes"
	"encoding/json"
	"flag"
	"fmt"
	"os"
	"sort"
	"strconv"
	"strings"
	"sync"

	"github.com/grafana/cog/verifapi"
	"gopkg.in/yaml.v3"
)

func init() {
	commands["c15-replay"] = c15Replay
}

type edge struct {
	Pre  []any `json:"pre"`
	Act  J     `json:"act"`
	Post []any `json:"post"`
	// chains: the IR the chain started from and every transformation so far (Act is the last one)
	Init []any `json:"init"`
	Hist []J   `json:"hist"`
}

func objRef(j any) verifapi.ObjectReference {
	m := jmap(j)
	return verifapi.ObjectReference{Package: jstr(m["pkg"]), Object: jstr(m["obj"])}
}

func objRefs(j any) []verifapi.ObjectReference {
	out := []verifapi.ObjectReference{}
	for _, x := range jlist(j) {
		out = append(out, objRef(x))
	}
	return out
}

func fieldRef(j any) verifapi.FieldReference {
	m := jmap(j)
	return verifapi.FieldReference{Package: jstr(m["pkg"]), Object: jstr(m["obj"]), Field: jstr(m["field"])}
}

func fieldRefs(j any) []verifapi.FieldReference {
	out := []verifapi.FieldReference{}
	for _, x := range jlist(j) {
		out = append(out, fieldRef(x))
	}
	return out
}

func objRefStr(j any) string { m := jmap(j); return jstr(m["pkg"]) + "." + jstr(m["obj"]) }
func fieldRefStr(j any) string {
	m := jmap(j)
	return jstr(m["pkg"]) + "." + jstr(m["obj"]) + "." + jstr(m["field"])
}

func optComments(j any) []string {
	m := jmap(j)
	if !jbool(m["given"]) {
		return nil
	}
	c := jstrings(m["c"])
	if c == nil {
		c = []string{}
	}
	return c
}

func unprojFields(j any) ([]verifapi.StructField, error) {
	out := []verifapi.StructField{}
	for _, f := range jlist(j) {
		fm := jmap(f)
		ft, err := unprojType(jmap(fm["type"]))
		if err != nil {
			return nil, err
		}
		out = append(out, verifapi.StructField{Name: jstr(fm["name"]), Type: ft, Required: jbool(fm["required"]), Comments: jstrings(fm["comments"])})
	}
	return out, nil
}

// passFromAct builds the real pass. The second result is a YAML document for
// the same pass when the compiler_passes grammar can express it ("" otherwise).
func passFromAct(act J) (verifapi.Pass, string, error) {
	q := func(s string) string { return strconv.Quote(s) }
	qlist := func(l []string) string {
		parts := []string{}
		for _, s := range l {
			parts = append(parts, q(s))
		}
		return "[" + strings.Join(parts, ", ") + "]"
	}
	strs := func(j any, f func(any) string) []string {
		out := []string{}
		for _, x := range jlist(j) {
			out = append(out, f(x))
		}
		return out
	}
	switch jstr(act["a"]) {
	case "rename_object":
		return &verifapi.RenameObject{From: objRef(act["from"]), To: jstr(act["to"])},
			fmt.Sprintf("passes:\n  - rename_object: {from: %s, to: %s}\n", q(objRefStr(act["from"])), q(jstr(act["to"]))), nil
	case "omit":
		return &verifapi.Omit{Objects: objRefs(act["objects"])},
			fmt.Sprintf("passes:\n  - omit: {objects: %s}\n", qlist(strs(act["objects"], objRefStr))), nil
	case "omit_fields":
		return &verifapi.OmitFields{Fields: fieldRefs(act["fields"])},
			fmt.Sprintf("passes:\n  - omit_fields: {fields: %s}\n", qlist(strs(act["fields"], fieldRefStr))), nil
	case "add_fields":
		fields, err := unprojFields(act["fields"])
		return &verifapi.AddFields{Object: objRef(act["to"]), Fields: fields},
			yamlPass("add_fields", map[string]any{"to": objRefStr(act["to"]), "fields": fields}), err
	case "add_object":
		t, err := unprojType(jmap(act["as"]))
		return &verifapi.AddObject{Object: objRef(act["object"]), As: t, Comments: jstrings(act["comments"])},
			yamlPass("add_object", map[string]any{"object": objRefStr(act["object"]), "as": t, "comments": jstrings(act["comments"])}), err
	case "duplicate_object":
		return &verifapi.DuplicateObject{Object: objRef(act["object"]), As: objRef(act["as"]), OmitFields: jstrings(act["omit"])},
			fmt.Sprintf("passes:\n  - duplicate_object: {object: %s, as: %s, omit_fields: %s}\n", q(objRefStr(act["object"])), q(objRefStr(act["as"])), qlist(jstrings(act["omit"]))), nil
	case "retype_object":
		t, err := unprojType(jmap(act["as"]))
		doc := map[string]any{"object": objRefStr(act["object"]), "as": t}
		if c := optComments(act["comments"]); c != nil {
			doc["comments"] = c // absent when not given: the YAML route must then leave the comments alone
		}
		return &verifapi.RetypeObject{Object: objRef(act["object"]), As: t, Comments: optComments(act["comments"])}, yamlPass("retype_object", doc), err
	case "retype_field":
		t, err := unprojType(jmap(act["as"]))
		doc := map[string]any{"field": fieldRefStr(act["field"]), "as": t}
		if c := optComments(act["comments"]); c != nil {
			doc["comments"] = c
		}
		return &verifapi.RetypeField{Field: fieldRef(act["field"]), As: t, Comments: optComments(act["comments"])}, yamlPass("retype_field", doc), err
	case "fields_set_required":
		return &verifapi.FieldsSetRequired{Fields: fieldRefs(act["fields"])},
			fmt.Sprintf("passes:\n  - fields_set_required: {fields: %s}\n", qlist(strs(act["fields"], fieldRefStr))), nil
	case "fields_set_not_required":
		return &verifapi.FieldsSetNotRequired{Fields: fieldRefs(act["fields"])},
			fmt.Sprintf("passes:\n  - fields_set_not_required: {fields: %s}\n", qlist(strs(act["fields"], fieldRefStr))), nil
	case "fields_set_default":
		v, err := unprojVal(jmap(act["value"]))
		y := ""
		if s, ok := v.(string); ok {
			y = fmt.Sprintf("passes:\n  - fields_set_default:\n      defaults:\n        %s: %s\n", q(fieldRefStr(act["field"])), q(s))
		}
		return &verifapi.FieldsSetDefault{DefaultValues: map[verifapi.FieldReference]any{fieldRef(act["field"]): v}}, y, err
	case "replace_reference":
		return &verifapi.ReplaceReference{From: objRef(act["from"]), To: objRef(act["to"])},
			fmt.Sprintf("passes:\n  - replace_reference: {from: %s, to: %s}\n", q(objRefStr(act["from"])), q(objRefStr(act["to"]))), nil
	case "constant_to_enum":
		return &verifapi.ConstantToEnum{Objects: objRefs(act["objects"])},
			fmt.Sprintf("passes:\n  - constant_to_enum: {objects: %s}\n", qlist(strs(act["objects"], objRefStr))), nil
	case "trim_enum_values":
		return &verifapi.TrimEnumValues{}, "passes:\n  - trim_enum_values: {}\n", nil
	case "hint_object":
		hints := verifapi.JenniesHints{}
		y := fmt.Sprintf("passes:\n  - hint_object:\n      object: %s\n      hints:\n", q(objRefStr(act["object"])))
		for _, h := range jlist(act["hints"]) {
			v, err := unprojVal(jmap(jmap(h)["val"]))
			if err != nil {
				return nil, "", err
			}
			hints[jstr(jmap(h)["key"])] = v
			raw, _ := json.Marshal(v)
			y += fmt.Sprintf("        %s: %s\n", q(jstr(jmap(h)["key"])), raw)
		}
		return &verifapi.HintObject{Object: objRef(act["object"]), Hints: hints}, y, nil
	case "schema_set_identifier":
		return &verifapi.SchemaSetIdentifier{Package: jstr(act["pkg"]), Identifier: jstr(act["id"])},
			fmt.Sprintf("passes:\n  - schema_set_identifier: {package: %s, identifier: %s}\n", q(jstr(act["pkg"])), q(jstr(act["id"]))), nil
	case "schema_set_entry_point":
		return &verifapi.SchemaSetEntrypoint{Package: jstr(act["pkg"]), EntryPoint: jstr(act["entry"])},
			fmt.Sprintf("passes:\n  - schema_set_entry_point: {package: %s, entry_point: %s}\n", q(jstr(act["pkg"])), q(jstr(act["entry"]))), nil
	case "prefix_objects_names":
		return &verifapi.PrefixObjectNames{Prefix: jstr(act["prefix"])}, "", nil
	case "append_comment_objects":
		return &verifapi.AppendCommentObjects{Comment: jstr(act["comment"])}, "", nil
	case "unspec":
		return &verifapi.Unspec{}, "passes:\n  - unspec: {}\n", nil
	case "allowed_objects":
		return &verifapi.FilterSchemas{AllowedObjects: objRefs(act["objects"])}, "", nil
	}
	return nil, "", fmt.Errorf("unknown action %q", jstr(act["a"]))
}

// yamlPass renders one compiler pass as a compiler_passes YAML document; ast values (types, fields) are
// marshalled by yaml.v3 itself, i.e. with exactly the keys the loader's structs declare.
func yamlPass(name string, body map[string]any) string {
	raw, err := yaml.Marshal(map[string]any{"passes": []any{map[string]any{name: body}}})
	if err != nil {
		return ""
	}
	return string(raw)
}

// blankMemberNames removes enum member names from a projected IR (prefix_objects_names).
func blankMemberNames(v any) any {
	switch x := v.(type) {
	case map[string]any:
		out := J{}
		for k, c := range x {
			out[k] = blankMemberNames(c)
		}
		if jstr(x["k"]) == "enum" {
			ms := []any{}
			for _, m := range jlist(x["members"]) {
				mm := J{}
				for k, c := range jmap(m) {
					mm[k] = c
				}
				mm["name"] = ""
				ms = append(ms, mm)
			}
			out["members"] = ms
		}
		return out
	case []any:
		out := make([]any, len(x))
		for i, c := range x {
			out[i] = blankMemberNames(c)
		}
		return out
	}
	return v
}

// blankMappingTargets removes discriminator-mapping targets (replace_reference: not compared).
func blankMappingTargets(v any) any {
	switch x := v.(type) {
	case map[string]any:
		out := J{}
		for k, c := range x {
			out[k] = blankMappingTargets(c)
		}
		if jstr(x["k"]) == "disj" {
			ms := []any{}
			for _, m := range jlist(x["mapping"]) {
				ms = append(ms, J{"key": jmap(m)["key"], "to": ""})
			}
			out["mapping"] = ms
		}
		return out
	case []any:
		out := make([]any, len(x))
		for i, c := range x {
			out[i] = blankMappingTargets(c)
		}
		return out
	}
	return v
}

// normalize re-encodes through JSON so that both sides have the same dynamic types.
func normalize(v any) any {
	raw, _ := json.Marshal(v)
	var out any
	_ = json.Unmarshal(raw, &out)
	return out
}

type diffInfo struct {
	Path  []string
	Kinds []string // kind of every enclosing type node
	Want  any
	Got   any
}

// allDiffs collects the differences between two projected IRs (leaf attributes
// before nested structures; a list whose length differs is reported once).
func allDiffs(want, got any, path []string, kinds []string, out *[]*diffInfo) {
	if len(*out) >= 64 {
		return
	}
	switch w := want.(type) {
	case map[string]any:
		g, ok := got.(map[string]any)
		if !ok {
			*out = append(*out, &diffInfo{path, kinds, want, got})
			return
		}
		if k, isType := w["k"].(string); isType {
			kinds = append(append([]string{}, kinds...), k)
			if gk := jstr(g["k"]); gk != k {
				*out = append(*out, &diffInfo{append(append([]string{}, path...), "k"), kinds, k, gk})
				return
			}
		}
		keys := make([]string, 0, len(w))
		for k := range w {
			keys = append(keys, k)
		}
		for k := range g {
			if _, ok := w[k]; !ok {
				keys = append(keys, k)
			}
		}
		sort.Strings(keys)
		for pass := 0; pass < 2; pass++ {
			for _, k := range keys {
				_, wNested := w[k].(map[string]any)
				_, wList := w[k].([]any)
				nested := wNested || wList
				if (pass == 0) == nested {
					continue
				}
				allDiffs(w[k], g[k], append(append([]string{}, path...), k), kinds, out)
			}
		}
		return
	case []any:
		g, ok := got.([]any)
		if !ok {
			*out = append(*out, &diffInfo{path, kinds, want, got})
			return
		}
		if len(w) != len(g) {
			*out = append(*out, &diffInfo{append(append([]string{}, path...), "#len"), kinds, len(w), len(g)})
			return
		}
		for i := range w {
			allDiffs(w[i], g[i], append(append([]string{}, path...), "*"), kinds, out)
		}
		return
	}
	if canon(want) != canon(got) {
		*out = append(*out, &diffInfo{path, kinds, want, got})
	}
}

func firstDiff(want, got any, path []string, kinds []string) *diffInfo {
	var out []*diffInfo
	allDiffs(want, got, path, kinds, &out)
	if len(out) == 0 {
		return nil
	}
	return out[0]
}

// diffClasses returns the distinct classes of all differences, with one example each.
func diffClasses(want, got any) (map[string]*diffInfo, []string) {
	var out []*diffInfo
	allDiffs(want, got, nil, nil, &out)
	m := map[string]*diffInfo{}
	order := []string{}
	for _, d := range out {
		c := classify(d)
		if _, ok := m[c]; !ok {
			m[c] = d
			order = append(order, c)
		}
	}
	return m, order
}

// selectorSpelling tells how the action's selectors relate to the names in pre:
// exact (spelled like a target), folded (matches only up to case), absent.
func selectorSpelling(act J, pre []any) string {
	names := map[string]bool{}
	lower := map[string]bool{}
	for _, s := range pre {
		for _, o := range jlist(jmap(s)["objects"]) {
			n := jstr(jmap(o)["name"])
			names[jstr(jmap(s)["pkg"])+"."+n] = true
			lower[jstr(jmap(s)["pkg"])+"."+strings.ToLower(n)] = true
			if t := jmap(jmap(o)["type"]); jstr(t["k"]) == "struct" {
				for _, f := range jlist(t["fields"]) {
					names[jstr(jmap(s)["pkg"])+"."+n+"."+jstr(jmap(f)["name"])] = true
					lower[jstr(jmap(s)["pkg"])+"."+strings.ToLower(n)+"."+strings.ToLower(jstr(jmap(f)["name"]))] = true
				}
			}
		}
	}
	sels := []string{}
	add := func(v any) {
		m := jmap(v)
		if m == nil {
			return
		}
		if _, ok := m["field"]; ok {
			sels = append(sels, fieldRefStr(m))
		} else if _, ok := m["obj"]; ok {
			sels = append(sels, objRefStr(m))
		}
	}
	for _, k := range []string{"from", "object", "field", "to"} {
		if k == "to" && jstr(act["a"]) != "add_fields" {
			continue
		}
		add(act[k])
	}
	for _, k := range []string{"objects", "fields"} {
		if k == "fields" && jstr(act["a"]) == "add_fields" {
			continue
		}
		for _, x := range jlist(act[k]) {
			add(x)
		}
	}
	if len(sels) == 0 {
		return "none"
	}
	res := "absent"
	for _, s := range sels {
		parts := strings.SplitN(s, ".", 2)
		if names[s] {
			return "exact"
		}
		if lower[parts[0]+"."+strings.ToLower(parts[1])] {
			res = "folded"
		}
	}
	return res
}

func classify(d *diffInfo) string {
	// where: the path with indices removed, cut at the first type node
	where := []string{}
	for _, p := range d.Path {
		if p == "*" {
			continue
		}
		where = append(where, p)
	}
	flags := ""
	for _, p := range d.Path {
		if p == "idx" {
			flags = ":mapkey"
		}
	}
	kind := ""
	if len(d.Kinds) > 0 {
		kind = d.Kinds[len(d.Kinds)-1]
	}
	leaf := "?"
	if len(where) > 0 {
		leaf = where[len(where)-1]
	}
	top := "?"
	if len(where) > 0 {
		top = where[0]
	}
	if top == "objects" && len(where) > 1 {
		top = "object." + where[1]
	}
	if kind != "" {
		return fmt.Sprintf("%s/%s.%s%s", top, kind, leaf, flags)
	}
	return fmt.Sprintf("%s/%s%s", top, leaf, flags)
}

// projSchemasAfter re-runs the step and returns the projection of the INPUT schemas afterwards.
func projSchemasAfter(e edge, _ bool) any {
	schemas, err := unprojSchemas(any(e.Pre))
	if err != nil {
		return nil
	}
	pass, _, err := passFromAct(e.Act)
	if err != nil {
		return nil
	}
	func() {
		defer func() { _ = recover() }()
		_, _ = verifapi.Passes{pass}.Process(schemas)
	}()
	return projSchemas(schemas)
}

type sigAgg struct {
	Count    int   `json:"count"`
	Examples []any `json:"examples"`
}

func c15Replay(args []string) int {
	fs := flag.NewFlagSet("c15-replay", flag.ExitOnError)
	in := fs.String("in", "", "TLC output file with EDGE lines")
	traceOut := fs.String("trace", "", "write records {pre, act, post(real), err} for TLC trace validation")
	traceMatchEvery := fs.Int("trace-match-every", 200, "also trace every n-th matching edge")
	traceMax := fs.Int("trace-max", 20000, "cap on traced mismatching edges")
	par := fs.Int("par", 16, "parallel replayers")
	_ = fs.Parse(args)
	f, err := os.Open(*in)
	if err != nil {
		fmt.Fprintln(os.Stderr, err)
		return 2
	}
	defer f.Close()
	rd := bufio.NewReaderSize(f, 4<<20)
	var tw *bufio.Writer
	if *traceOut != "" {
		tf, err := os.Create(*traceOut)
		if err != nil {
			fmt.Fprintln(os.Stderr, err)
			return 2
		}
		defer tf.Close()
		tw = bufio.NewWriterSize(tf, 1<<20)
		defer tw.Flush()
	}
	prefix := []byte(`<<"EDGE", `)

	var mu sync.Mutex
	edges, matched, yamlRuns, traced, tracedBad := 0, 0, 0, 0, 0
	perAct := map[string]int{}
	perActNontrivial := map[string]int{}
	sigs := map[string]*sigAgg{}
	names := map[string]bool{}
	enumStrings := map[string]bool{}
	hintKeys := map[string]bool{}
	var samples []any
	harnessErr := ""
	fail := func(sig string, ex any) { // mu held
		a := sigs[sig]
		if a == nil {
			a = &sigAgg{}
			sigs[sig] = a
		}
		a.Count++
		if len(a.Examples) < 2 {
			a.Examples = append(a.Examples, ex)
		}
	}

	type job struct {
		n    int
		line []byte
	}
	jobs := make(chan job, 256)
	var wg sync.WaitGroup
	process := func(jb job) {
		body := bytes.TrimSpace(jb.line[len(prefix):])
		body = bytes.TrimSuffix(body, []byte(">>"))
		var js string
		if err := json.Unmarshal(body, &js); err != nil {
			mu.Lock()
			harnessErr = "bad EDGE line: " + err.Error()
			mu.Unlock()
			return
		}
		var e edge
		if err := json.Unmarshal([]byte(js), &e); err != nil {
			mu.Lock()
			harnessErr = "bad EDGE json: " + err.Error()
			mu.Unlock()
			return
		}
		actName := jstr(e.Act["a"])
		if len(e.Hist) > 1 {
			names := []string{}
			for _, h := range e.Hist {
				names = append(names, jstr(h["a"]))
			}
			actName = strings.Join(names, ">")
		}
		wantErr := jbool(e.Act["err"])
		want := any(e.Post)
		nontrivial := canon(e.Pre) != canon(e.Post) || wantErr
		sel := selectorSpelling(e.Act, e.Pre)
		inputMutated := false
		notRepeatable := false
		paramsModified := false
		chain := len(e.Hist) > 1
		startIR := any(e.Pre)
		if chain {
			startIR = any(e.Init)
		}
		run := func(viaYAML bool) (any, bool, string) {
			schemas, err := unprojSchemas(startIR)
			if err != nil {
				return nil, false, "harness: " + err.Error()
			}
			pass, y, err := passFromAct(e.Act)
			if err != nil {
				return nil, false, "harness: " + err.Error()
			}
			passes := verifapi.Passes{pass}
			if chain {
				// the whole chain in ONE Passes.Process call, as a transformation file is applied
				if viaYAML {
					return nil, false, "noyaml"
				}
				passes = verifapi.Passes{}
				for _, h := range e.Hist {
					p, _, err := passFromAct(h)
					if err != nil {
						return nil, false, "harness: " + err.Error()
					}
					passes = append(passes, p)
				}
			}
			if viaYAML {
				if y == "" {
					return nil, false, "noyaml"
				}
				passes, err = verifapi.NewCompilerLoader().Load(strings.NewReader(y))
				if err != nil {
					return nil, false, "yaml-load: " + err.Error()
				}
			}
			var out verifapi.Schemas
			var perr error
			panicked := ""
			paramsBefore, _ := json.Marshal(passes)
			func() {
				defer func() {
					if r := recover(); r != nil {
						panicked = fmt.Sprint(r)
					}
				}()
				out, perr = passes.Process(schemas)
			}()
			// a pass never modifies its own parameters (they are applied again for the next output language)
			if paramsAfter, _ := json.Marshal(passes); !viaYAML && string(paramsBefore) != string(paramsAfter) {
				paramsModified = true
			}
			if panicked != "" {
				return nil, false, "panic: " + panicked
			}
			// the schemas handed to the chain must not have been modified (C07/C18): reported
			// under C07, and does not mask the comparison of the result
			if canon(projSchemas(schemas)) != canon(startIR) {
				inputMutated = true
			}
			if perr != nil {
				return nil, true, ""
			}
			first := normalize(projSchemas(out))
			// the SAME pass instances applied once more to an equal input give an equal result: a pipeline applies one
			// transformation list once per output language, so a pass that keeps state or shares its parameters with the
			// schemas it rewrote (which a later pass then modifies) changes what the next application does
			if !viaYAML {
				if again, aerr := unprojSchemas(startIR); aerr == nil {
					var out2 verifapi.Schemas
					var perr2 error
					func() {
						defer func() {
							if r := recover(); r != nil {
								perr2 = fmt.Errorf("panic: %v", r)
							}
						}()
						out2, perr2 = passes.Process(again)
					}()
					if perr2 != nil || canon(normalize(projSchemas(out2))) != canon(first) {
						notRepeatable = true
					}
				}
			}
			return first, false, ""
		}
		type failure struct {
			sig string
			ex  J
		}
		var fails []failure
		okEdge := true
		var realPost any
		realErr := false
		// the result of the FIRST route (direct / yaml) that does not conform: this is the real step TLC judges
		var badPost any
		badErr, haveBad := false, false
		yr := 0
		for _, viaYAML := range []bool{false, true} {
			got, gotErr, problem := run(viaYAML)
			if problem == "noyaml" {
				continue
			}
			if viaYAML {
				yr++
			}
			route := "direct"
			if viaYAML {
				route = "yaml"
			}
			if !viaYAML {
				realPost, realErr = got, gotErr
			}
			ex := J{"pre": e.Pre, "act": e.Act, "expected": e.Post, "route": route, "init": e.Init, "hist": e.Hist}
			if problem != "" {
				okEdge = false
				if strings.HasPrefix(problem, "harness") {
					mu.Lock()
					harnessErr = problem
					mu.Unlock()
					return
				}
				ex["problem"] = problem
				cls := strings.SplitN(problem, ":", 2)[0]
				fails = append(fails, failure{fmt.Sprintf("C15/%s/%s/sel=%s", actName, cls, sel), ex})
				continue
			}
			if gotErr != wantErr {
				okEdge = false
				if !haveBad {
					badPost, badErr, haveBad = got, gotErr, true
				}
				ex["real_err"] = gotErr
				fails = append(fails, failure{fmt.Sprintf("C15/%s/error-expected=%v-got=%v/sel=%s", actName, wantErr, gotErr, sel), ex})
				continue
			}
			if wantErr {
				continue
			}
			w, g := want, got
			if strings.Contains(actName, "prefix_objects_names") {
				w, g = blankMemberNames(w), blankMemberNames(g)
			}
			if strings.Contains(actName, "replace_reference") {
				w, g = blankMappingTargets(w), blankMappingTargets(g)
			}
			if canon(w) == canon(g) {
				continue
			}
			okEdge = false
			if !haveBad {
				badPost, badErr, haveBad = got, gotErr, true
			}
			classes, order := diffClasses(normalize(w), g)
			ex["real"] = got
			if len(order) == 0 {
				fails = append(fails, failure{fmt.Sprintf("C15/%s/unclassified/sel=%s", actName, sel), ex})
			}
			for _, cls := range order {
				d := classes[cls]
				exc := J{}
				for k, v := range ex {
					exc[k] = v
				}
				exc["diff"] = J{"path": strings.Join(d.Path, "."), "want": d.Want, "got": d.Got}
				fails = append(fails, failure{fmt.Sprintf("C15/%s/%s/sel=%s", actName, cls, sel), exc})
			}
		}
		if paramsModified {
			fails = append(fails, failure{fmt.Sprintf("C15/%s/pass-parameters-modified/sel=%s", actName, sel),
				J{"pre": e.Pre, "act": e.Act, "expected": e.Post, "route": "direct", "init": e.Init, "hist": e.Hist,
					"problem": "Process modified the parameters of the passes it was given"}})
		}
		if notRepeatable {
			// a Go-side clause of its own: the FIRST application is what TLC judges against the specification (okEdge)
			fails = append(fails, failure{fmt.Sprintf("C15/%s/not-repeatable/sel=%s", actName, sel),
				J{"pre": e.Pre, "act": e.Act, "expected": e.Post, "route": "direct", "init": e.Init, "hist": e.Hist,
					"problem": "the same pass instances applied a second time to an equal input give a different result"}})
		}
		if inputMutated {
			cls := "chain"
			if !chain {
				if d := firstDiff(normalize(any(e.Pre)), normalize(projSchemasAfter(e, false)), nil, nil); d != nil {
					cls = classify(d)
				}
			}
			fails = append(fails, failure{fmt.Sprintf("C07/input-mutated/%s/%s", actName, cls), J{"pre": e.Pre, "act": e.Act}})
		}
		mu.Lock()
		defer mu.Unlock()
		edges++
		perAct[actName]++
		if nontrivial {
			perActNontrivial[actName]++
		}
		yamlRuns += yr
		for _, fl := range fails {
			fail(fl.sig, fl.ex)
		}
		if okEdge {
			matched++
			if len(samples) < 3 && nontrivial && jb.n%97 == 0 {
				samples = append(samples, J{"pre": e.Pre, "act": e.Act, "post": e.Post})
			}
		}
		// trace for TLC: every mismatching edge (capped) and a thin sample of the others
		if tw != nil && (realPost != nil || realErr) {
			write := false
			if !okEdge && tracedBad < *traceMax {
				write = true
				tracedBad++
			} else if okEdge && jb.n%*traceMatchEvery == 0 {
				write = true
			}
			if write {
				if haveBad {
					realPost, realErr = badPost, badErr
				}
				if realPost == nil {
					realPost = []any{}
				}
				// what the comparison leaves out for this step or chain (see Transforms.tla): enum member names
				// after prefix_objects_names, discriminator-mapping targets after replace_reference
				rec := J{"pre": e.Pre, "act": e.Act, "post": realPost, "err": realErr, "sel": sel, "match": okEdge, "n": jb.n,
					"nomembers": strings.Contains(actName, "prefix_objects_names"), "nomappings": strings.Contains(actName, "replace_reference")}
				raw, _ := json.Marshal(rec)
				tw.Write(raw)
				tw.WriteByte('\n')
				traced++
				collectStrings(e.Pre, names, enumStrings, hintKeys)
				collectStrings(realPost, names, enumStrings, hintKeys)
				collectStrings(e.Act, names, enumStrings, hintKeys)
			}
		}
	}
	for i := 0; i < *par; i++ {
		wg.Add(1)
		go func() {
			defer wg.Done()
			for jb := range jobs {
				process(jb)
			}
		}()
	}
	n := 0
	for {
		line, rerr := rd.ReadBytes('\n')
		if bytes.HasPrefix(line, prefix) {
			n++
			jobs <- job{n, line}
		}
		if rerr != nil {
			break
		}
	}
	close(jobs)
	wg.Wait()
	if harnessErr != "" {
		fmt.Fprintln(os.Stderr, harnessErr)
		return 2
	}
	summary := J{"edges": edges, "matched": matched, "yaml_runs": yamlRuns, "traced": traced,
		"per_action": perAct, "per_action_nontrivial": perActNontrivial, "signatures": sigs, "samples": samples,
		"tables": tables(names, enumStrings, hintKeys)}
	raw, _ := json.Marshal(summary)
	os.Stdout.Write(raw)
	os.Stdout.WriteString("\n")
	return 0
}

// collectStrings gathers every name-like string (for the fold table), every
// string enum value (trim table) and every hint key (rank table) of a JSON tree.
func collectStrings(v any, names, enumStrings, hintKeys map[string]bool) {
	switch x := v.(type) {
	case map[string]any:
		for k, c := range x {
			switch k {
			case "name", "selfname", "obj", "field", "to", "entry", "pkg", "selfpkg", "id", "prefix":
				if s, ok := c.(string); ok {
					names[s] = true
				}
			case "key":
				if s, ok := c.(string); ok {
					hintKeys[s] = true
				}
			case "omit":
				for _, s := range jlist(c) {
					names[jstr(s)] = true
				}
			}
			if k == "val" {
				if m := jmap(c); m != nil && jstr(m["t"]) == "string" {
					enumStrings[jstr(m["s"])] = true
				}
			}
			collectStrings(c, names, enumStrings, hintKeys)
		}
	case []any:
		for _, c := range x {
			collectStrings(c, names, enumStrings, hintKeys)
		}
	}
}

func tables(names, enumStrings, hintKeys map[string]bool) J {
	fold := J{}
	for n := range names {
		if n == "" {
			continue
		}
		fold[n] = strings.ToLower(n)
		// prefixed spellings the specification may build
		fold["Pre"+n] = strings.ToLower("Pre" + n)
	}
	fold["spec"] = "spec"
	fold["metadata"] = "metadata"
	trim := J{}
	for s := range enumStrings {
		if s == "" {
			continue
		}
		trim[s] = strings.TrimSpace(s)
	}
	keys := []string{}
	for k := range hintKeys {
		keys = append(keys, k)
	}
	sort.Strings(keys)
	rank := J{}
	for i, k := range keys {
		rank[k] = i + 1
	}
	return J{"fold": fold, "trim": trim, "hintrank": rank}
}
