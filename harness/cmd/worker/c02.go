package main

// C02, Go side. Schema documents go through `sem-gen` (the whole real pipeline from a YAML file).
// This file adds the second entry point of the property's quantifier:
//
//   c02-ir   one job per line {"id","yaml","root","schemas":[IR.tla schema terms]}:
//            the intermediate representation is built directly as ast.Schemas (ir.go), the
//            pipeline configuration (output kinds, language, flags) is read from the YAML file
//            exactly as for a normal run (PipelineFromFile + Parameters), then the steps of
//            codegen.Pipeline.Run after LoadSchemas are performed with cog's own exported
//            pieces: OutputLanguages, ContextForLanguage (language compiler passes, builders,
//            veneers, nil checks), Language.Jennies(config).GenerateFS, files written below
//            <root>/<output directory with %l replaced>. One record per job, same shape as
//            sem-gen: {"id","ok","err","panic","files","ms"}.

import (
	"bufio"
	"bytes"
	"context"
	"encoding/json"
	"fmt"
	"os"
	"path/filepath"
	"runtime/debug"
	"sort"
	"strings"
	"time"

	"github.com/grafana/codejen"
	"github.com/grafana/cog/verifapi"
)

func init() {
	commands["c02-ir"] = c02IR
}

type c02IRJob struct {
	ID      string `json:"id"`
	YAML    string `json:"yaml"`
	Root    string `json:"root"`
	Schemas []any  `json:"schemas"`
}

func c02IROne(job c02IRJob) (res semGenResult) {
	res.ID = job.ID
	t0 := time.Now()
	defer func() {
		res.Ms = float64(time.Since(t0).Microseconds()) / 1000
		if r := recover(); r != nil {
			res.OK = false
			res.Panic = fmt.Sprintf("%v\n%s", r, topFrames(string(debug.Stack()), 12))
		}
	}()
	schemas, err := unprojSchemas(job.Schemas)
	if err != nil {
		res.Err = "harness: " + err.Error()
		return res
	}
	pipeline, err := verifapi.PipelineFromFile(job.YAML, verifapi.PipelineParameters(map[string]string{}))
	if err != nil {
		res.Err = "config: " + err.Error()
		return res
	}
	targets, err := pipeline.OutputLanguages()
	if err != nil {
		res.Err = err.Error()
		return res
	}
	names := make([]string, 0, len(targets))
	for n := range targets {
		names = append(names, n)
	}
	sort.Strings(names)
	generated := codejen.NewFS()
	for _, name := range names {
		target := targets[name]
		jenniesInput, err := pipeline.ContextForLanguage(target, schemas)
		if err != nil {
			res.Err = err.Error()
			return res
		}
		jl := target.Jennies(verifapi.LanguageConfig{
			Debug:        pipeline.Debug,
			Types:        pipeline.Output.Types,
			Builders:     pipeline.Output.Builders,
			Converters:   pipeline.Output.Converters,
			APIReference: pipeline.Output.APIReference,
		})
		dir := strings.ReplaceAll(pipeline.Output.Directory, "%l", name)
		jl.AddPostprocessors(func(f codejen.File) (codejen.File, error) {
			f.RelativePath = filepath.Join(dir, f.RelativePath)
			return f, nil
		})
		fs, err := jl.GenerateFS(jenniesInput)
		if err != nil {
			res.Err = err.Error()
			return res
		}
		if err := generated.Merge(fs); err != nil {
			res.Err = err.Error()
			return res
		}
	}
	for _, f := range generated.AsFiles() {
		res.Files = append(res.Files, f.RelativePath)
	}
	sort.Strings(res.Files)
	if err := generated.Write(context.Background(), job.Root); err != nil {
		res.Err = "write: " + err.Error()
		return res
	}
	res.OK = true
	return res
}

func c02IR(args []string) int {
	in := bufio.NewScanner(os.Stdin)
	in.Buffer(make([]byte, 1<<20), 1<<26)
	out := bufio.NewWriter(os.Stdout)
	defer out.Flush()
	enc := json.NewEncoder(out)
	for in.Scan() {
		if len(bytes.TrimSpace(in.Bytes())) == 0 {
			continue
		}
		var job c02IRJob
		if err := json.Unmarshal(in.Bytes(), &job); err != nil {
			fmt.Fprintln(os.Stderr, "c02-ir: bad job:", err)
			return 2
		}
		_ = enc.Encode(c02IROne(job))
	}
	return 0
}
