// Command schedrewrite builds the map-order scheduler overlay for C03/C07.
//
// It loads the cog module (-repo, the CURRENT tree) with type information,
// finds every `range` statement whose operand is a Go map in the non-test
// packages of the module, writes rewritten copies of the files that contain
// one into -out, adds the runtime package internal/verifsched and a facade
// extension (verifapi.SchedReset/SchedSet/SchedLog/...), and writes a
// `go build -overlay` JSON. Nothing is written under -repo.
//
//	for k, v := range m { B }
//
// becomes
//
//	{
//	    verifM1 := m
//	    for _, verifK1 := range verifsched.Order(verifM1, "<site>") {
//	        k := verifK1
//	        v, verifOk1 := verifM1[verifK1]
//	        if !verifOk1 { continue }      // deleted while iterating: Go would not produce it either
//	        B
//	    }
//	}
//
// A site is named by import path, enclosing function and operand text (never
// by line number): "compiler.(*FieldsSetDefault).processObject/range pass.DefaultValues".
// After rewriting, the result is type-checked again in memory; any error makes
// the tool exit 3 so the caller can fall back to repetition mode.
package main

import (
	"bytes"
	"encoding/json"
	"flag"
	"fmt"
	"go/ast"
	"go/format"
	"go/importer"
	"go/parser"
	"go/printer"
	"go/token"
	"go/types"
	"os"
	"path/filepath"
	"sort"
	"strings"

	"golang.org/x/tools/go/ast/astutil"
	"golang.org/x/tools/go/packages"
)

type site struct {
	ID        string `json:"id"`
	Pkg       string `json:"pkg"`
	Func      string `json:"func"`
	Operand   string `json:"operand"`
	File      string `json:"file"`
	KeyType   string `json:"key_type"`
	Form      string `json:"form"`
	Labeled   bool   `json:"labeled"`
	KeyStable bool   `json:"key_stable"` // canonical order of the keys is the same in every process
}

type uncontrolled struct {
	Pkg  string `json:"pkg"`
	Func string `json:"func"`
	What string `json:"what"`
}

const modPath = "github.com/grafana/cog"

func main() {
	repo := flag.String("repo", "/repo", "cog working tree")
	out := flag.String("out", "", "scratch directory for the overlay")
	flag.Parse()
	if *out == "" {
		fmt.Fprintln(os.Stderr, "usage: schedrewrite -repo DIR -out DIR")
		os.Exit(2)
	}
	if err := run(*repo, *out); err != nil {
		fmt.Fprintln(os.Stderr, "schedrewrite:", err)
		os.Exit(3)
	}
}

func run(repo, out string) error {
	repo, _ = filepath.Abs(repo)
	fset := token.NewFileSet()
	cfg := &packages.Config{
		Mode: packages.NeedName | packages.NeedFiles | packages.NeedCompiledGoFiles | packages.NeedSyntax |
			packages.NeedTypes | packages.NeedTypesInfo | packages.NeedImports | packages.NeedDeps | packages.NeedModule,
		Dir:        repo,
		Fset:       fset,
		Tests:      false,
		BuildFlags: []string{"-tags", "verif"},
	}
	pkgs, err := packages.Load(cfg, "./...")
	if err != nil {
		return err
	}
	var sites []site
	var unc []uncontrolled
	replace := map[string]string{}
	seen := map[string]int{}
	nfiles := 0
	sort.Slice(pkgs, func(i, j int) bool { return pkgs[i].PkgPath < pkgs[j].PkgPath })
	for _, p := range pkgs {
		if len(p.Errors) > 0 {
			return fmt.Errorf("package %s does not type-check: %v", p.PkgPath, p.Errors[0])
		}
		if !strings.HasPrefix(p.PkgPath, modPath) || strings.Contains(p.PkgPath, "/testdata/") {
			continue
		}
		short := strings.TrimPrefix(strings.TrimPrefix(p.PkgPath, modPath), "/")
		short = strings.TrimPrefix(short, "internal/")
		if short == "" {
			short = "cog"
		}
		changed := map[*ast.File]bool{}
		counter := 0
		for _, f := range p.Syntax {
			fname := fset.Position(f.Pos()).Filename
			if strings.HasSuffix(fname, "_test.go") {
				continue
			}
			// calls that iterate a map without a range statement (not controllable by the rewrite)
			ast.Inspect(f, func(n ast.Node) bool {
				call, ok := n.(*ast.CallExpr)
				if !ok {
					return true
				}
				sel, ok := call.Fun.(*ast.SelectorExpr)
				if !ok {
					return true
				}
				if obj := p.TypesInfo.Uses[sel.Sel]; obj != nil && obj.Pkg() != nil {
					pp, nm := obj.Pkg().Path(), obj.Name()
					if (pp == "maps" || pp == "golang.org/x/exp/maps") && (nm == "Keys" || nm == "Values" || nm == "All") ||
						pp == "reflect" && (nm == "MapKeys" || nm == "MapRange") {
						unc = append(unc, uncontrolled{Pkg: short, Func: enclosingFunc(f, call.Pos()), What: pp + "." + nm})
					}
				}
				return true
			})
			labeledRange := map[*ast.BlockStmt]*ast.LabeledStmt{}
			astutil.Apply(f, nil, func(c *astutil.Cursor) bool {
				switch n := c.Node().(type) {
				case *ast.LabeledStmt:
					if blk, ok := n.Stmt.(*ast.BlockStmt); ok && labeledRange[blk] == n {
						c.Replace(blk)
					}
				case *ast.RangeStmt:
					t := p.TypesInfo.TypeOf(n.X)
					if t == nil {
						return true
					}
					mt, ok := t.Underlying().(*types.Map)
					if !ok {
						if _, isTP := t.(*types.TypeParam); isTP {
							unc = append(unc, uncontrolled{Pkg: short, Func: enclosingFunc(f, n.Pos()), What: "range over type parameter " + exprText(fset, n.X)})
						}
						return true
					}
					counter++
					fn := enclosingFunc(f, n.Pos())
					operand := exprText(fset, n.X)
					// the package's last element is what DESIGN 6.1 shows: compiler.(*T).method
					id := lastElem(short) + "." + fn + "/range " + operand
					seen[id]++
					if seen[id] > 1 {
						id = fmt.Sprintf("%s#%d", id, seen[id])
					}
					lab, _ := c.Parent().(*ast.LabeledStmt)
					blk, form := rewriteRange(n, counter, id, lab)
					if lab != nil {
						labeledRange[blk] = lab
					}
					c.Replace(blk)
					changed[f] = true
					sites = append(sites, site{ID: id, Pkg: p.PkgPath, Func: fn, Operand: operand,
						File: rel(repo, fname), KeyType: types.TypeString(mt.Key(), shortQualifier), Form: form, Labeled: lab != nil,
						KeyStable: stableKey(mt.Key())})
				}
				return true
			})
		}
		for f := range changed {
			fname := fset.Position(f.Pos()).Filename
			astutil.AddImport(fset, f, modPath+"/internal/verifsched")
			var buf bytes.Buffer
			if err := (&printer.Config{Mode: printer.UseSpaces | printer.TabIndent, Tabwidth: 8}).Fprint(&buf, fset, f); err != nil {
				return err
			}
			src, err := format.Source(buf.Bytes())
			if err != nil {
				return fmt.Errorf("rewritten %s does not parse: %w", fname, err)
			}
			dst := filepath.Join(out, "files", rel(repo, fname))
			if err := os.MkdirAll(filepath.Dir(dst), 0o755); err != nil {
				return err
			}
			if err := os.WriteFile(dst, src, 0o644); err != nil {
				return err
			}
			replace[fname] = dst
			nfiles++
		}
	}

	// runtime + facade extension
	schedDst := filepath.Join(out, "verifsched", "sched.go")
	if err := os.MkdirAll(filepath.Dir(schedDst), 0o755); err != nil {
		return err
	}
	if err := os.WriteFile(schedDst, []byte(schedSrc), 0o644); err != nil {
		return err
	}
	replace[filepath.Join(repo, "internal", "verifsched", "sched.go")] = schedDst
	facDst := filepath.Join(out, "facade", "sched_ext.go")
	if err := os.MkdirAll(filepath.Dir(facDst), 0o755); err != nil {
		return err
	}
	if err := os.WriteFile(facDst, []byte(facadeSrc), 0o644); err != nil {
		return err
	}
	replace[filepath.Join(repo, "verifapi", "ext_zz_sched.go")] = facDst

	// type-check the rewritten files again (in memory, per package, dependencies from export data of the
	// loaded packages): a rewrite that does not type-check must never reach `go build`
	if err := recheck(pkgs, replace, fset, schedDst); err != nil {
		return err
	}

	ov, _ := json.MarshalIndent(map[string]any{"Replace": replace}, "", " ")
	if err := os.WriteFile(filepath.Join(out, "overlay.json"), ov, 0o644); err != nil {
		return err
	}
	sort.Slice(sites, func(i, j int) bool { return sites[i].ID < sites[j].ID })
	meta, _ := json.MarshalIndent(map[string]any{"sites": sites, "files": nfiles, "uncontrolled": unc, "mode": "overlay"}, "", " ")
	if err := os.WriteFile(filepath.Join(out, "sites.json"), meta, 0o644); err != nil {
		return err
	}
	fmt.Printf("{\"sites\":%d,\"files\":%d,\"uncontrolled\":%d}\n", len(sites), nfiles, len(unc))
	return nil
}

func lastElem(s string) string {
	if i := strings.LastIndex(s, "/"); i >= 0 {
		return s[i+1:]
	}
	return s
}

func rel(repo, f string) string {
	r, err := filepath.Rel(repo, f)
	if err != nil {
		return f
	}
	return r
}

func shortQualifier(p *types.Package) string { return p.Name() }

// stableKey: fmt.Sprint of the key is a function of the key's value only (no addresses).
func stableKey(t types.Type) bool {
	switch u := t.Underlying().(type) {
	case *types.Basic:
		return u.Kind() != types.UnsafePointer
	case *types.Struct:
		for i := 0; i < u.NumFields(); i++ {
			if !stableKey(u.Field(i).Type()) {
				return false
			}
		}
		return true
	case *types.Array:
		return stableKey(u.Elem())
	}
	return false // pointers, interfaces, channels
}

func exprText(fset *token.FileSet, e ast.Expr) string {
	var buf bytes.Buffer
	_ = printer.Fprint(&buf, fset, e)
	return strings.Join(strings.Fields(buf.String()), " ")
}

func enclosingFunc(f *ast.File, pos token.Pos) string {
	name := "init"
	for _, d := range f.Decls {
		fd, ok := d.(*ast.FuncDecl)
		if !ok || pos < fd.Pos() || pos > fd.End() {
			continue
		}
		name = fd.Name.Name
		if fd.Recv != nil && len(fd.Recv.List) == 1 {
			name = recvText(fd.Recv.List[0].Type) + "." + name
		}
	}
	return name
}

func recvText(e ast.Expr) string {
	switch t := e.(type) {
	case *ast.StarExpr:
		return "(*" + strings.Trim(recvText(t.X), "()") + ")"
	case *ast.Ident:
		return t.Name
	case *ast.IndexExpr:
		return recvText(t.X)
	case *ast.IndexListExpr:
		return recvText(t.X)
	}
	return "?"
}

func isBlank(e ast.Expr) bool {
	if e == nil {
		return true
	}
	id, ok := e.(*ast.Ident)
	return ok && id.Name == "_"
}

func rewriteRange(n *ast.RangeStmt, idx int, id string, lab *ast.LabeledStmt) (*ast.BlockStmt, string) {
	mName := ast.NewIdent(fmt.Sprintf("verifM%d", idx))
	kName := ast.NewIdent(fmt.Sprintf("verifK%d", idx))
	vName := ast.NewIdent(fmt.Sprintf("verifV%d", idx))
	okName := ast.NewIdent(fmt.Sprintf("verifOk%d", idx))
	form := "range"
	define := n.Tok == token.DEFINE
	tok := token.ASSIGN
	if define {
		tok = token.DEFINE
	}
	hasK, hasV := !isBlank(n.Key), !isBlank(n.Value)
	idxExpr := &ast.IndexExpr{X: mName, Index: kName}
	lhsV := ast.Expr(ast.NewIdent("_"))
	if hasV {
		lhsV = vName
	}
	pre := []ast.Stmt{
		// presence test first: an entry deleted while iterating is not produced by Go either
		&ast.AssignStmt{Lhs: []ast.Expr{lhsV, okName}, Tok: token.DEFINE, Rhs: []ast.Expr{idxExpr}},
		&ast.IfStmt{
			Cond: &ast.UnaryExpr{Op: token.NOT, X: okName},
			Body: &ast.BlockStmt{List: []ast.Stmt{&ast.BranchStmt{Tok: token.CONTINUE}}},
		},
	}
	if hasK {
		form += " k"
		pre = append(pre, &ast.AssignStmt{Lhs: []ast.Expr{n.Key}, Tok: tok, Rhs: []ast.Expr{kName}})
	}
	if hasV {
		form += " v"
		pre = append(pre, &ast.AssignStmt{Lhs: []ast.Expr{n.Value}, Tok: tok, Rhs: []ast.Expr{vName}})
	}
	if !define && (hasK || hasV) {
		form += " (=)"
	}
	body := &ast.BlockStmt{List: append(pre, n.Body.List...)}
	inner := ast.Stmt(&ast.RangeStmt{
		Key: ast.NewIdent("_"), Value: kName, Tok: token.DEFINE,
		X: &ast.CallExpr{
			Fun:  &ast.SelectorExpr{X: ast.NewIdent("verifsched"), Sel: ast.NewIdent("Order")},
			Args: []ast.Expr{mName, &ast.BasicLit{Kind: token.STRING, Value: fmt.Sprintf("%q", id)}},
		},
		Body: body,
	})
	if lab != nil {
		inner = &ast.LabeledStmt{Label: lab.Label, Stmt: inner}
	}
	return &ast.BlockStmt{List: []ast.Stmt{
		&ast.AssignStmt{Lhs: []ast.Expr{mName}, Tok: token.DEFINE, Rhs: []ast.Expr{n.X}},
		inner,
	}}, form
}

// recheck parses the rewritten files and type-checks every affected package against the already loaded
// dependencies.
func recheck(pkgs []*packages.Package, replace map[string]string, _ *token.FileSet, schedFile string) error {
	fset := token.NewFileSet()
	all := map[string]*packages.Package{}
	packages.Visit(pkgs, nil, func(p *packages.Package) { all[p.PkgPath] = p })
	sf, err := parser.ParseFile(fset, schedFile, nil, 0)
	if err != nil {
		return err
	}
	imp := &mapImporter{all: all, def: importer.Default(), extra: map[string]*types.Package{}}
	schedPkg, err := (&types.Config{Importer: imp}).Check(modPath+"/internal/verifsched", fset, []*ast.File{sf}, nil)
	if err != nil {
		return fmt.Errorf("verifsched does not type-check: %w", err)
	}
	imp.extra[modPath+"/internal/verifsched"] = schedPkg
	for _, p := range pkgs {
		touched := false
		for _, f := range p.CompiledGoFiles {
			if _, ok := replace[f]; ok {
				touched = true
			}
		}
		if !touched {
			continue
		}
		var files []*ast.File
		for _, f := range p.CompiledGoFiles {
			src := f
			if r, ok := replace[f]; ok {
				src = r
			}
			af, err := parser.ParseFile(fset, src, nil, 0)
			if err != nil {
				return fmt.Errorf("rewritten file does not parse: %w", err)
			}
			files = append(files, af)
		}
		var first error
		conf := &types.Config{Importer: imp, Error: func(e error) {
			if first == nil {
				first = e
			}
		}}
		_, _ = conf.Check(p.PkgPath, fset, files, nil)
		if first != nil {
			return fmt.Errorf("rewritten package %s does not type-check: %w", p.PkgPath, first)
		}
	}
	return nil
}

type mapImporter struct {
	all   map[string]*packages.Package
	def   types.Importer
	extra map[string]*types.Package
}

func (m *mapImporter) Import(path string) (*types.Package, error) {
	if p, ok := m.extra[path]; ok {
		return p, nil
	}
	if p, ok := m.all[path]; ok && p.Types != nil {
		return p.Types, nil
	}
	return m.def.Import(path)
}

const schedSrc = `// Package verifsched is added by the /verif map-order scheduler overlay. It is never part of cog.
package verifsched

import (
	"fmt"
	"sort"
)

// Occ is one dynamic occurrence of a range over a map with at least two keys.
type Occ struct {
	Site string
	N    int
	Keys string // printed form of the keys in canonical order (diagnostics; truncated)
}

var (
	// Log lists the occurrences of the current run, in execution order.
	Log []Occ
	// plan: occurrence index -> permutation code. -1 = reverse, r >= 0 = rotate left by r,
	// codes >= 1000 = the (code-1000)-th permutation in lexicographic order (factorial number system).
	plan    = map[int]int{}
	counter int
	// random: when set, every occurrence not in plan is permuted by this generator (xorshift, seeded)
	random uint64
	// randomSites: when non-empty, the random generator only permutes occurrences of these sites
	randomSites map[string]bool
	// reverseSites: every occurrence of these sites is reversed (unless the plan says otherwise)
	reverseSites map[string]bool
	// Calls counts every Order call (also those with fewer than two keys).
	Calls int
)

func Reset() {
	Log = nil
	counter = 0
	Calls = 0
	plan = map[int]int{}
	random = 0
	randomSites = nil
	reverseSites = nil
}

func SetReverseSites(sites []string) {
	reverseSites = map[string]bool{}
	for _, s := range sites {
		reverseSites[s] = true
	}
}

func SetRandomSites(sites []string) {
	randomSites = map[string]bool{}
	for _, s := range sites {
		randomSites[s] = true
	}
}

func Set(occurrence, code int) { plan[occurrence] = code }

func SetRandom(seed uint64) {
	if seed == 0 {
		seed = 0x9E3779B97F4A7C15
	}
	random = seed
}

func next() uint64 {
	random ^= random << 13
	random ^= random >> 7
	random ^= random << 17
	return random
}

// Order returns the keys of m: canonical order (sorted by printed form) permuted as the current schedule says.
func Order[M ~map[K]V, K comparable, V any](m M, site string) []K {
	Calls++
	keys := make([]K, 0, len(m))
	for k := range m {
		keys = append(keys, k)
	}
	if len(keys) < 2 {
		return keys
	}
	printed := make(map[K]string, len(keys))
	for _, k := range keys {
		printed[k] = fmt.Sprintf("%T:%v", k, k)
	}
	sort.SliceStable(keys, func(i, j int) bool { return printed[keys[i]] < printed[keys[j]] })
	idx := counter
	counter++
	desc := ""
	for i, k := range keys {
		if i > 0 {
			desc += ","
		}
		desc += printed[k]
		if len(desc) > 160 {
			desc += ",..."
			break
		}
	}
	Log = append(Log, Occ{Site: site, N: len(keys), Keys: desc})
	code, ok := plan[idx]
	if !ok && reverseSites[site] {
		code, ok = -1, true
	}
	switch {
	case ok && code == -1:
		for i, j := 0, len(keys)-1; i < j; i, j = i+1, j-1 {
			keys[i], keys[j] = keys[j], keys[i]
		}
	case ok && code >= 1000:
		keys = nthPermutation(keys, code-1000)
	case ok && code > 0:
		r := code % len(keys)
		keys = append(append(make([]K, 0, len(keys)), keys[r:]...), keys[:r]...)
	case !ok && random != 0 && (len(randomSites) == 0 || randomSites[site]):
		for i := len(keys) - 1; i > 0; i-- {
			j := int(next() % uint64(i+1))
			keys[i], keys[j] = keys[j], keys[i]
		}
	}
	return keys
}

func nthPermutation[K any](keys []K, n int) []K {
	rest := append(make([]K, 0, len(keys)), keys...)
	out := make([]K, 0, len(keys))
	fact := 1
	for i := 2; i < len(keys); i++ {
		fact *= i
	}
	n %= fact * len(keys)
	for i := len(keys) - 1; i >= 0; i-- {
		d := n / fact
		n %= fact
		out = append(out, rest[d])
		rest = append(rest[:d], rest[d+1:]...)
		if i > 0 {
			fact /= i
		}
	}
	return out
}
`

const facadeSrc = `//go:build verif && verifsched

package verifapi

import "github.com/grafana/cog/internal/verifsched"

// Map-order scheduler controls (added by the /verif overlay; never part of cog).
type SchedOcc = verifsched.Occ

const SchedAvailable = true

func SchedReset()                    { verifsched.Reset() }
func SchedSet(occurrence, code int)  { verifsched.Set(occurrence, code) }
func SchedSetRandom(seed uint64)     { verifsched.SetRandom(seed) }
func SchedSetRandomSites(s []string) { verifsched.SetRandomSites(s) }
func SchedSetReverseSites(s []string) { verifsched.SetReverseSites(s) }
func SchedLog() []SchedOcc           { return append([]SchedOcc(nil), verifsched.Log...) }
func SchedCalls() int                { return verifsched.Calls }
`
