"""Generic driver for cog-generated Python (DESIGN 4.5, C10 / C11). ONE process for every generated module.

usage: python3 driver.py <generated python root>      (ndjson commands on stdin, one ndjson record per command)

Only the standard library and the generated code are imported: `models.<package>` and the generated runtime
`cog.encoder.JSONEncoder`, through which every value is encoded ("through the generated encoder").

  {"op":"import","id":..,"module":"c0001j"}
      -> {"id","ok","err","classes":[...]}            compile() + import of models/<module>.py
  {"op":"default","id":..,"module":..,"cls":"Root"}
      -> {"id","ok","enc"|"err","stage"}              json of `Root()`                       (C10)
  {"op":"default2","id":..,"module":..,"cls":"Root"}
      -> the same for a SECOND `Root()` built after every list / dict reachable from a first `Root()` was mutated in place
         (a default must not be shared between instances: C10 "the value produced by the generated default constructor")
  {"op":"roundtrip","id":..,"module":..,"cls":..,"doc":<json>}
      -> {"id","ok","enc"|"err","stage"}              json of `Root.from_json(doc)`          (C11)
  {"op":"roundtrip2","id":..,"module":..,"cls":..,"first":<json>,"doc":<json>}
      -> json of `Root.from_json(doc)` decoded AFTER `Root.from_json(first)` whose collections were then mutated in place
         (no state may survive from one from_json to the next: C11 speaks of each document on its own)
  {"op":"encode","id":..,"module":..,"cls":..,"doc":<json>}
      -> the same, but encoding the dict `to_json()` returned instead of the object itself

`stage` names where an exception was raised: import / lookup / construct / from_json / encode.
"""
import importlib
import json
import os
import sys
import traceback


def short(e):
    tb = traceback.extract_tb(e.__traceback__)
    where = ""
    for fr in reversed(tb):
        if "/models/" in fr.filename or "/cog/" in fr.filename:
            where = " @%s:%s" % (os.path.basename(fr.filename), fr.name)
            break
    return ("%s: %s%s" % (type(e).__name__, e, where))[:400]


def mutate(o, depth=0):
    """in-place mutation of every collection reachable from a generated object"""
    if depth > 8:
        return
    if isinstance(o, list):
        for e in list(o):
            mutate(e, depth + 1)
        o.append("__mutated__")
    elif isinstance(o, dict):
        for e in list(o.values()):
            mutate(e, depth + 1)
        o["__mutated__"] = "__mutated__"
    elif hasattr(o, "__dict__") and callable(getattr(o, "to_json", None)):
        for e in list(vars(o).values()):
            mutate(e, depth + 1)


def main():
    # the generated tree is ONE package (<root>/__init__.py, <root>/models, <root>/cog): modules of a schema's second package
    # are imported relatively (`from ..models import other`), which only resolves when `models` is not the top level
    root = os.path.abspath(sys.argv[1])
    top = os.path.basename(root)
    sys.path.insert(0, os.path.dirname(root))
    sys.dont_write_bytecode = True
    encoder = None
    encoder_err = None
    try:
        encoder = importlib.import_module(top + ".cog.encoder").JSONEncoder
    except Exception as e:  # the generated runtime itself is broken: every command reports it
        encoder_err = short(e)
    mods = {}

    def load(name):
        if name not in mods:
            try:
                path = os.path.join(root, "models", name + ".py")
                compile(open(path).read(), path, "exec")      # what py_compile does, without writing a .pyc
                mods[name] = (importlib.import_module(top + ".models." + name), None)
            except BaseException as e:
                if isinstance(e, (KeyboardInterrupt, SystemExit)):
                    raise
                mods[name] = (None, short(e))
        return mods[name]

    def encode(x):
        return json.loads(json.dumps(x, cls=encoder))

    out = sys.stdout
    for line in sys.stdin:
        line = line.strip()
        if not line:
            continue
        c = json.loads(line)
        r = {"id": c["id"], "op": c["op"], "ok": False}
        stage = "import"
        try:
            if encoder is None:
                raise RuntimeError("generated runtime cog.encoder does not import: %s" % encoder_err)
            mod, err = load(c["module"])
            if mod is None:
                r["err"] = err
                r["stage"] = stage
                out.write(json.dumps(r) + "\n")
                continue
            if c["op"] == "import":
                r["ok"] = True
                r["classes"] = sorted(k for k, v in vars(mod).items() if isinstance(v, type) and v.__module__ == mod.__name__)
            else:
                stage = "lookup"
                cls = getattr(mod, c["cls"])
                if c["op"] == "default":
                    stage = "construct"
                    obj = cls()
                    stage = "encode"
                    r["enc"] = encode(obj)
                elif c["op"] == "default2":
                    stage = "construct"
                    first = cls()
                    mutate(first)
                    obj = cls()
                    stage = "encode"
                    r["enc"] = encode(obj)
                elif c["op"] == "roundtrip2":
                    stage = "from_json"
                    try:
                        mutate(cls.from_json(c["first"]))
                    except Exception:
                        pass                      # the first document's own failure is reported by its own roundtrip
                    obj = cls.from_json(c["doc"])
                    stage = "encode"
                    r["enc"] = encode(obj)
                elif c["op"] in ("roundtrip", "encode"):
                    stage = "from_json"
                    obj = cls.from_json(c["doc"])
                    stage = "encode"
                    r["enc"] = encode(obj if c["op"] == "roundtrip" else obj.to_json())
                else:
                    raise ValueError("unknown op " + c["op"])
                r["ok"] = True
        except BaseException as e:
            if isinstance(e, (KeyboardInterrupt, SystemExit)):
                raise
            r["err"] = short(e)
            r["stage"] = stage
        out.write(json.dumps(r) + "\n")
    out.flush()


if __name__ == "__main__":
    main()
