module verifharness

go 1.23

require (
	cuelang.org/go v0.11.0
	github.com/getkin/kin-openapi v0.128.0
	github.com/grafana/codejen v0.0.4-0.20230321061741-77f656893a3d
	github.com/grafana/cog v0.0.0
	golang.org/x/tools v0.30.0
	gopkg.in/yaml.v3 v3.0.1
)

require (
	cuelabs.dev/go/oci/ociregistry v0.0.0-20240906074133-82eb438dd565 // indirect
	github.com/cockroachdb/apd/v3 v3.2.1 // indirect
	github.com/emicklei/proto v1.13.2 // indirect
	github.com/expr-lang/expr v1.16.9 // indirect
	github.com/go-openapi/jsonpointer v0.21.0 // indirect
	github.com/go-openapi/swag v0.23.0 // indirect
	github.com/google/go-cmp v0.7.0 // indirect
	github.com/google/uuid v1.6.0 // indirect
	github.com/hashicorp/errwrap v1.1.0 // indirect
	github.com/hashicorp/go-multierror v1.1.1 // indirect
	github.com/huandu/xstrings v1.5.0 // indirect
	github.com/invopop/yaml v0.3.1 // indirect
	github.com/josharian/intern v1.0.0 // indirect
	github.com/mailru/easyjson v0.7.7 // indirect
	github.com/mitchellh/go-wordwrap v1.0.1 // indirect
	github.com/mohae/deepcopy v0.0.0-20170929034955-c48cc78d4826 // indirect
	github.com/opencontainers/go-digest v1.0.0 // indirect
	github.com/opencontainers/image-spec v1.1.0 // indirect
	github.com/pelletier/go-toml/v2 v2.2.3 // indirect
	github.com/perimeterx/marshmallow v1.1.5 // indirect
	github.com/protocolbuffers/txtpbfmt v0.0.0-20241112170944-20d2c9ebc01d // indirect
	github.com/rogpeppe/go-internal v1.13.1 // indirect
	github.com/santhosh-tekuri/jsonschema/v5 v5.3.1 // indirect
	github.com/yalue/merged_fs v1.3.0 // indirect
	golang.org/x/mod v0.23.0 // indirect
	golang.org/x/net v0.35.0 // indirect
	golang.org/x/oauth2 v0.24.0 // indirect
	golang.org/x/sync v0.11.0 // indirect
	golang.org/x/text v0.22.0 // indirect
)

replace github.com/grafana/cog => /repo
